"""C54 - Reified conditionals are declaratively sound."""
import json
from lib import common, terms
from lib.common import Report, run_jobs

PROP = "C54"

META = {
    "level": "model_checking",
    "text": "Reif.tla defines the meaning of if_/3 (conditions =/3, dif/3, memberd_t/3, ','/3, ';'/3), memberd_t/3, tfilter/3, "
            "tpartition/4 and tmember/2 as sets of ground instances over a finite universe, read off the explicit disjunction "
            "(Cond+, Then ; Cond-, Else) with = and dif only; TLC checks that the positive and negative readings are complementary "
            "and enumerates every query over the terms {a,b,X,Y,f(X)} (conditions up to depth 2, lists up to length 3, instantiation "
            "patterns given by equations posted before the goal, output arguments free or pre-bound) with its solution set. Each "
            "query is run on the real library; every answer (bindings + residual dif/2 constraints) is expanded to its ground "
            "instances by completing it with every grounding of the input variables; the union must equal the specified set and "
            "no answer may be unsatisfiable (decided exactly by binding the free variables to distinct fresh constants). "
            "Bounded-exhaustive conformance, not proof.",
    "note": "Trusted: TLC, the term renderer, findall/3, term_variables/2 and the LeafAnswer projection of the harness. Finite trees "
            "only: queries in which a unification would need the occurs check (X = f(X)) are not generated. Redundant answers are "
            "counted but not asserted (the property states no determinism claim).",
    "technique": "TLA+ ground-instance semantics enumerated by TLC; answers of the real library expanded by grounding and compared as sets",
}

SETUP = """:- use_module(library(reif)).
:- use_module(library(dif)).
:- use_module(library(lists)).
gen([], _).
gen([V|Vs], N) :- V = '$fresh'(N), N1 is N + 1, gen(Vs, N1).
satisfiable(IVs) :- \\+ \\+ ( term_variables(IVs, Vs), gen(Vs, 0) ).
%s
"""


def setup_text(useq):
    return SETUP % "\n".join("u(%s)." % terms.tla_text(t) for t in useq)


def query_text(v):
    pre = [terms.tla_text(p) for p in v["pre"]]
    goal = terms.tla_text(v["goal"])
    tup = "[" + ",".join(v["vars"]) + "]"
    ivs = "[" + ",".join(v["ivars"]) + "]"
    gens = ", ".join("u(%s)" % x for x in v["ivars"]) or "true"
    body = ", ".join(pre + [goal,
                            "( satisfiable(%s) -> Sat = true ; Sat = false )" % ivs,
                            "findall(%s, (%s), As)" % (tup, gens)])
    return "catch(findall(Sat-As, (%s), Answers), error(E,_), true)." % body


def list_items(t):
    items = []
    while t[0] == 'c' and t[1] == '.' and len(t[2]) == 2:
        items.append(t[2][0])
        t = t[2][1]
    return items


def has_var(t):
    if t[0] == 'v':
        return True
    if t[0] == 'c':
        return any(has_var(x) for x in t[2])
    return False


def observe(out):
    if "panic" in out:
        return {"kind": "panic", "what": out["panic"]}
    a = [x for x in out.get("a", []) if x != "F"]
    if len(a) != 1 or not isinstance(a[0], dict) or "b" not in a[0]:
        return {"kind": "other", "what": out.get("a")}
    b = a[0]["b"]
    if "E" in b and "Answers" not in b:
        return {"kind": "error", "what": terms.show(terms.from_h(b["E"]))}
    try:
        answers = []
        for it in list_items(terms.from_h(b["Answers"])):
            sat, as_ = it[2]
            answers.append((sat == ('a', 'true'), [tuple(list_items(t)) for t in list_items(as_)]))
        return {"kind": "ok", "answers": answers}
    except Exception as ex:
        return {"kind": "other", "what": "%r / %r" % (b, ex)}


def compare(v, obs):
    """yield (kind, message); also returns statistics through obs['stats']"""
    if obs["kind"] != "ok":
        yield ("abnormal-" + obs["kind"], str(obs.get("what")))
        return
    sem = set(tuple(terms.from_tla(t) for t in tup) for tup in v["sem"])
    seen = {}
    nonground = False
    for sat, insts in obs["answers"]:
        if not sat:
            yield ("unsatisfiable-answer", "an answer whose residual constraints have no solution at all was reported")
        for tup in insts:
            if any(has_var(t) for t in tup):
                nonground = True
            seen[tup] = seen.get(tup, 0) + 1
    if nonground:
        yield ("nonground-output", "an output argument is still unbound after grounding the input variables")
    got = set(seen)
    show = lambda s: sorted("[" + ",".join(terms.show(t) for t in tup) + "]" for tup in s)
    if sem - got:
        yield ("incomplete", "ground solutions not covered by any answer: %s" % show(sem - got)[:6])
    if got - sem:
        yield ("unsound", "ground instances of answers that are not solutions: %s" % show(got - sem)[:6])
    obs["stats"] = {"answers": len(obs["answers"]),
                    "redundant": sum(1 for n in seen.values() if n > 1),
                    "empty_in_universe": sum(1 for sat, insts in obs["answers"] if sat and not insts)}


def signature(v, kind):
    pre = ",".join(terms.tla_text(p) for p in v["pre"])
    return "%s kind=%s goal=%s pre=[%s]" % (kind, v["k"], terms.tla_text(v["goal"]), pre)


def run(tier):
    rep = Report(PROP, tier, META["level"])
    rep.rule = ("TLC enumerates queries: if_/3 with every =/3 and dif/3 condition over {a,b,X,Y,f(X)}, ','/3 and ';'/3 combinations "
                "(all pairs of atomic conditions in the thorough tier, depth 2 over eight atomic conditions), memberd_t/3 conditions, "
                "call(Cond,T), memberd_t/3, tfilter/3, tpartition/4, tmember/2 with =(E) and dif(E) over lists of length <= 3, each "
                "under the instantiation patterns posted before the goal (X=a, X=Y, Y=f(a), X=f(Y), ...; T/R/Fs/Ts free or bound); "
                "distinct = (goal kind, condition shape or list length, instantiation pattern, solution set empty?)")
    res, vecs = common.generate("MC_C54", "MC_C54_%s.cfg" % tier, workers=8, timeout=3000,
                                key=lambda v: json.dumps([v["goal"], v["pre"]], sort_keys=True))
    rep.add_tlc(res)
    if not vecs:
        raise common.ToolError("no vectors generated")
    setup = setup_text(vecs[0]["u"])
    B = 300
    jobs = []
    for bi in range(0, len(vecs), B):
        steps = [{"consult": setup}] + [{"q": query_text(v), "max": 2} for v in vecs[bi:bi + B]]
        jobs.append({"id": bi, "steps": steps, "timeout": 600, "fresh": True})
    results = run_jobs(jobs, workers=8, job_timeout=600)
    tot_answers = tot_redundant = tot_empty = n_nonempty = 0
    for job in jobs:
        bi = job["id"]
        r = results.get(bi, {"crash": "missing"})
        batch = vecs[bi:bi + B]
        if "crash" in r:
            singles = [{"id": k, "steps": [{"consult": setup}, {"q": query_text(v), "max": 2}], "timeout": 60, "fresh": True}
                       for k, v in enumerate(batch)]
            sres = run_jobs(singles, workers=8, job_timeout=60)
            outs = []
            for k in range(len(singles)):
                sr = sres.get(k, {"crash": "missing"})
                outs.append({"panic": "no answer: " + sr["crash"]} if "crash" in sr else sr["res"][1])
        else:
            outs = r["res"][1:]
        for k, v in enumerate(batch):
            obs = observe(outs[k])
            pre = ",".join(terms.tla_text(p) for p in v["pre"])
            rep.case((v["kind"], v["shape"], pre, len(v["sem"]) > 0))
            n_nonempty += 1 if v["sem"] else 0
            for kind, msg in compare(v, obs):
                rep.violation(signature(v, kind), {"vector": v, "query": query_text(v), "kind": kind, "message": msg,
                                                   "observed": outs[k]})
            st = obs.get("stats")
            if st:
                tot_answers += st["answers"]
                tot_redundant += st["redundant"]
                tot_empty += st["empty_in_universe"]
    for v in vecs[:: max(1, len(vecs) // 5)]:
        rep.sample({"query": query_text(v), "solutions": len(v["sem"])})
    rep.traces = len(vecs)
    rep.exhaustive = True
    rep.extra = {"queries": len(vecs), "queries_with_solutions": n_nonempty, "answers_expanded": tot_answers,
                 "ground_instances_covered_by_more_than_one_answer_not_asserted": tot_redundant,
                 "satisfiable_answers_without_instance_in_universe": tot_empty}
    rep.assumptions = ["TLC; the complementarity of the positive and negative readings (ReifTotal) is checked in the same run",
                       "findall/3, term_variables/2, \\+/1 and the LeafAnswer projection of the harness",
                       "finite trees (no query needs the occurs check); ground instances over the universe %s"
                       % [terms.tla_text(t) for t in vecs[0]["u"]]]
    return rep.finish()


def replay(path):
    d = json.load(open(path))
    v = d["detail"]["vector"]
    qt = query_text(v)
    r = run_jobs([{"id": 0, "steps": [{"consult": setup_text(v["u"])}, {"q": qt, "max": 2}], "fresh": True, "timeout": 60}], workers=1)
    out = r[0]["res"][1] if "res" in r[0] else {"panic": r[0].get("crash")}
    found = list(compare(v, observe(out)))
    print(json.dumps({"query": qt, "expected_solutions": [[terms.tla_text(t) for t in tup] for tup in v["sem"]],
                      "observed": out, "disagreements": found}, indent=1, default=str))
    return 1 if found else 0
