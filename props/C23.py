"""C23 - Term construction and inspection builtins match a term model."""
import json

from lib import common, terms
from lib.common import Report, run_jobs, generate
from props.C13 import Builder, Names, kind_of
from props.C10 import canon_names, decode, has_deep

PROP = "C23"
META = {
    "level": "model_checking",
    "text": "functor/3, arg/3, =../2, copy_term/2, term_variables/2, ground/1 and subsumes_term/2 are specified in TLA+ "
            "(spec/TermOps.tla) as functions on the term model with the ISO error clauses as sets of admissible errors. TLC "
            "enumerates every builtin over a universe of terms of depth <= 2 (shared variables, strings, partial strings, "
            "bignums, floats, rationals) x every argument mode x ill-typed arguments, checks the operators against "
            "independent readings (brute-force subsumption, copy = variant with fresh variables, functor/univ round trips) and "
            "prints the expected solution sequence or error set of every case; every case is replayed compiled inline and "
            "through call/N and compared up to variable renaming (the whole argument tuple, so bindings, sharing, freshness of "
            "new variables and the untouched original are all observed).",
    "note": "Trusted: TLC; TermOps.tla as the reading of ISO 8.5 / Cor.2; the renderer of build trees; the depth-bounded result "
            "encoder written in Prolog (uses =../2). Not covered: attributed variables in copy_term/2, numbervars/3 (not "
            "provided by this system), calls that would build cyclic terms (C24). Bounded conformance, not proof.",
    "technique": "TLA+ term model with TLC-checked cross-readings; TLC-enumerated calls replayed into the real machine",
}

HELPER = r"""
c23mem(X, [X|_]).
c23mem(X, [_|T]) :- c23mem(X, T).
c23(Op, Tpl, r(I, C)) :- c23o(i, Op, Tpl, I), c23o(c, Op, Tpl, C).
% one observation: all solutions of the call, each as the encoded instance of the argument tuple; afterwards the
% arguments are pristine again (findall/3 undoes the bindings)
c23o(Ctx, Op, Tpl, R) :-
    catch(findall(E, (c23run(Ctx, Op, Tpl), c23e(8, Tpl, E)), Sols), Ball, true),
    (   var(Ball) -> R = sols(Sols)
    ;   Ball = error(F, _) -> c23e(8, F, EF), R = err(EF)
    ;   R = ball
    ).
c23run(i, functor, t(A, B, C)) :- functor(A, B, C).
c23run(i, arg, t(A, B, C)) :- arg(A, B, C).
c23run(i, univ, t(A, B)) :- A =.. B.
c23run(i, copy_term, t(A, B)) :- copy_term(A, B).
c23run(i, term_variables, t(A, B)) :- term_variables(A, B).
c23run(i, ground, t(A)) :- ground(A).
c23run(i, subsumes_term, t(A, B)) :- subsumes_term(A, B).
c23run(c, Op, Tpl) :- c23name(Op, P), c23call(P, Tpl).
c23name(functor, functor).
c23name(arg, arg).
c23name(univ, =..).
c23name(copy_term, copy_term).
c23name(term_variables, term_variables).
c23name(ground, ground).
c23name(subsumes_term, subsumes_term).
c23call(P, t(A)) :- call(P, A).
c23call(P, t(A, B)) :- call(P, A, B).
c23call(P, t(A, B, C)) :- call(P, A, B, C).
% plain, depth-bounded encoding of results (see props/C10.py)
c23e(_, T, E) :- var(T), !, E = T.
c23e(_, T, E) :- atomic(T), !, E = T.
c23e(D, _, E) :- D =< 0, !, E = '$deep'.
c23e(D, T, '$e'(F, Es)) :- T =.. [F|As], D1 is D - 1, c23es(As, D1, Es).
c23es([], _, []).
c23es([A|As], D, [E|Es]) :- c23e(D, A, E), c23es(As, D, Es).
"""
CTXS = ["inline", "call"]


def list_items(t):
    out = []
    while t[0] == 'c' and t[1] == '.' and len(t[2]) == 2:
        out.append(t[2][0])
        t = t[2][1]
    return out


def goal_text(op, args):
    if op == "univ":
        return "%s =.. %s" % (args[0], args[1])
    return "%s(%s)" % (op, ", ".join(args))


def make_jobs(cases, names, B, prefix):
    jobs, meta = [], {}
    for b0 in range(0, len(cases), B):
        goals, items = [], []
        for k, c in enumerate(cases[b0:b0 + B]):
            bl = Builder(names, "B%d_" % k)
            args = [bl.render(a) for a in c["x"]]
            goals += bl.goals
            items.append("p(%d,%s,t(%s))" % (k, terms.quote_atom(c["op"]), ",".join(args)))
        pre = (", ".join(goals) + ", ") if goals else ""
        q = "findall(K-R, (%sc23mem(p(K,Op,Tpl), [%s]), c23(Op, Tpl, R)), Out)." % (pre, ",".join(items))
        jid = "%s%d" % (prefix, b0)
        jobs.append({"id": jid, "fresh": True, "timeout": 120,
                     "steps": [{"consult": ":- use_module(library(iso_ext)).\n" + HELPER}, {"q": q, "max": 2}]})
        meta[jid] = cases[b0:b0 + B]
    return jobs, meta


def run(tier):
    rep = Report(PROP, tier, "model_checking")
    quick = tier == "quick"
    rep.rule = ("functor/3: T in universe+unbound x 10 names (unbound, atoms, '.', number, float, compound, string, [], shared "
                "variable) x 13 arities (unbound, 0..3, -1, 255, 256, atom, float, bignum, computed, rational); arg/3: 11 N x "
                "universe+unbound x 5 A; =../2: universe+unbound x 23 lists (partial, improper, non-atom heads, strings, "
                "partial strings); copy_term/2 x 6 second arguments; term_variables/2 x 9 second arguments; ground/1; "
                "subsumes_term/2 over pairs (thorough: seeded selection); each inline and via call/N. distinct = (builtin, "
                "context, kinds of the arguments, outcome)")
    res, vecs = generate("MC_C23", "MC_C23_%s.cfg" % tier, workers=8 if quick else 12, timeout=3300,
                         env_extra={"C23_SEED": common.seed()})
    rep.add_tlc(res)
    tab = [v for v in vecs if v.get("k") == "tab"]
    cases = [v for v in vecs if v.get("k") == "case"]
    if len(tab) != 1 or not cases:
        raise common.ToolError("MC_C23 printed no table / no cases")
    tab = tab[0]
    if tab["seed"] != common.seed():
        raise common.ToolError("seed was not passed to TLC")
    names = Names(tab["names"])
    if set(c["op"] for c in cases) != set(tab["ops"]):
        raise common.ToolError("some builtin has no case: %s" % sorted(set(c["op"] for c in cases)))
    jobs, meta = make_jobs(cases, names, 100, "b")
    results = run_jobs(jobs, workers=8, job_timeout=120)

    def failed(r):
        if "crash" in r:
            return "crash: %s" % r["crash"]
        out = r["res"][1]
        if "panic" in out:
            return "panic: %s" % out["panic"]
        if not out.get("a") or not isinstance(out["a"][0], dict) or "b" not in out["a"][0]:
            return "no answer: %s" % json.dumps(out)[:200]
        return None

    # a batch that died is re-run one case per machine so that the failure is attributed to its case
    retry = []
    for job in list(jobs):
        if failed(results.get(job["id"], {"crash": "missing"})):
            jobs.remove(job)
            for k, c in enumerate(meta.pop(job["id"])):
                j1, m1 = make_jobs([c], names, 1, "%s_%d_" % (job["id"], k))
                retry += j1
                meta.update(m1)
    if retry:
        results.update(run_jobs(retry, workers=8, job_timeout=60))
        jobs += retry
        rep.extra["batches_rerun_case_by_case"] = len(retry)
    for job in jobs:
        jid = job["id"]
        cs = meta[jid]
        r = results.get(jid, {"crash": "missing"})
        detail = {"query": job["steps"][1]["q"]}
        why = failed(r)
        if why:
            c = cs[0]
            bl = Builder(names, "B")
            args = [bl.render(a) for a in c["x"]]
            gtxt = ", ".join(bl.goals + [goal_text(c["op"], args)])
            rep.case((c["op"], "both", tuple(kind_of(a) for a in c["x"]), "died"))
            rep.violation("%s: %s" % (gtxt, why), dict(detail, case=c, result=r))
            continue
        out = r["res"][1]
        got = {}
        for it in list_items(terms.from_h(out["a"][0]["b"]["Out"])):
            if it[0] == 'c' and it[1] == '-' and it[2][0][0] == 'i':
                got[it[2][0][1]] = it[2][1]
        for k, c in enumerate(cs):
            bl = Builder(names, "B")
            args = [bl.render(a) for a in c["x"]]
            gtxt = ", ".join(bl.goals + [goal_text(c["op"], args)])
            g = got.get(k)
            akinds = tuple(kind_of(a) for a in c["x"])
            exp_sols = [canon_names(terms.from_tla(s), names) for s in c["sols"]]
            exp_errs = [canon_names(terms.from_tla(e), names) for e in c["errs"]]
            oc = "err:" + "|".join(sorted(e[1] if e[0] == 'a' else e[1] + "/" + terms.show(e[2][0]) for e in exp_errs)) \
                if c["r"] == "err" else "sols%d" % len(exp_sols)
            if g is None or g[0] != 'c' or g[1] != 'r' or len(g[2]) != 2:
                rep.violation("%s: no result (%s)" % (gtxt, terms.show(g) if g else "missing"), dict(detail, case=c))
                continue
            for ci, ctx in enumerate(CTXS):
                rep.case((c["op"], ctx, akinds, oc))
                o = g[2][ci]
                bad = None
                if o[0] == 'c' and o[1] == 'sols' and len(o[2]) == 1:
                    sols = [decode(s) for s in list_items(o[2][0])]
                    if c["r"] != "sols":
                        bad = "%d solution(s) %s, expected error %s" % (len(sols), "; ".join(terms.show(s) for s in sols[:2]),
                                                                        " | ".join(terms.show(e) for e in exp_errs))
                    elif len(sols) != len(exp_sols):
                        bad = "%d solution(s) %s, expected %d %s" % (len(sols), "; ".join(terms.show(s) for s in sols[:2]),
                                                                     len(exp_sols), "; ".join(terms.show(s) for s in exp_sols))
                    else:
                        for s, e in zip(sols, exp_sols):
                            if has_deep(s):
                                bad = "cyclic or too deep result"
                            elif not terms.variant(e, s):
                                bad = "solution %s, expected %s" % (terms.show(s), terms.show(e))
                elif o[0] == 'c' and o[1] == 'err' and len(o[2]) == 1:
                    e = decode(o[2][0])
                    if c["r"] != "err":
                        bad = "error %s, expected %s" % (terms.show(e), "; ".join(terms.show(s) for s in exp_sols) or "failure")
                    elif not any(terms.variant(x, e) for x in exp_errs):
                        bad = "error %s, expected %s" % (terms.show(e), " | ".join(terms.show(x) for x in exp_errs))
                else:
                    bad = "unexpected observation %s" % terms.show(o)
                if bad:
                    rep.violation("%s [%s]: %s" % (gtxt, ctx, bad), dict(detail, case=c, ctx=ctx, got=terms.show(o)))
    step = max(1, len(cases) // 5)
    for c in cases[::step]:
        bl = Builder(names, "B")
        args = [bl.render(a) for a in c["x"]]
        rep.sample({"goal": ", ".join(bl.goals + [goal_text(c["op"], args)]), "expected": c["r"],
                    "sols": [terms.show(canon_names(terms.from_tla(s), names)) for s in c["sols"]],
                    "errs": [terms.show(canon_names(terms.from_tla(e), names)) for e in c["errs"]]})
    rep.traces = len(cases)
    rep.extra["universe"] = tab["n"]
    rep.extra["cases"] = len(cases)
    rep.exhaustive = quick
    rep.assumptions = ["TLC; TermOps.tla (cross-readings checked per case in this run)",
                       "renderer of build trees, result encoder (Prolog, uses =../2), LeafAnswer projection of the harness",
                       "several ISO error conditions at once: any of them is accepted"]
    return rep.finish()


def replay(path):
    d = json.load(open(path))
    det = d["detail"]
    q = det.get("query")
    if not q:
        print(json.dumps(det)[:2000])
        return 0
    r = run_jobs([{"id": 0, "fresh": True, "steps": [{"consult": ":- use_module(library(iso_ext)).\n" + HELPER}, {"q": q, "max": 2}]}], workers=1)
    print(d["signature"])
    print(json.dumps(r[0])[:3000])
    return 0
