"""C18 - Text decoding does not depend on how input arrives."""
import json
import subprocess
from lib import common
from lib.common import Report, generate, build_harness

PROP = "C18"
META = {
    "level": "model_checking",
    "text": "Layer A (spec/Utf8.tla) defines the decoding of a byte stream into characters and maximal invalid prefixes; layer B "
            "(spec/CharReader.tla) transcribes CharReader's buffer management (keep-4 compaction, incomplete-sequence refill, "
            "put_back_char, consume). TLC checks that B refines A for every byte string up to length 3 (thorough 4) over 11 lead/"
            "continuation/invalid bytes plus long boundary strings, every partition into chunks and four access patterns (read, "
            "peek+read, read+put_back+read, mixed), and prints each behaviour; each is replayed operation by operation on the real "
            "CharReader fed by a chunked Read (verif-hooks CharReaderProbe) and every result compared.",
    "note": "Trusted: TLC; Utf8.tla as the reading of RFC 3629 with Rust's maximal-invalid-prefix convention; the real 8 KiB read_chunk "
            "size is not reached by the enumerated strings (chunking is imposed by the source instead). A panic of the real reader is a violation.",
    "technique": "TLA+ refinement (implementation-shaped reader vs. abstract decoding) checked by TLC; behaviours replayed into the real CharReader",
}


def expected(it):
    if it["k"] == "eof":
        return {"eof": True}
    if it["k"] == "char":
        return {"c": it["cp"]}
    return {"bad": it["n"]}


def norm(o):
    if "err" in o:
        # "Bad UTF-8: [226, 130]"
        s = o["err"]
        if "Bad UTF-8" in s:
            inner = s[s.index("[") + 1:s.index("]")].strip()
            return {"bad": len([x for x in inner.split(",") if x.strip()])}
        return {"err": s}
    return o


def run(tier):
    rep = Report(PROP, tier, "model_checking")
    rep.rule = ("every byte string x chunking x access pattern of MC_C18; distinct = (item kinds in the string, a multi-byte sequence "
                "is split across chunks, access pattern, ends in a truncated sequence)")
    res, vecs = generate("MC_C18", "MC_C18_%s.cfg" % tier, workers=6 if tier == "quick" else 14, timeout=3000)
    rep.add_tlc(res)
    binary, degraded = build_harness(True)
    if degraded:
        raise common.ToolError("C18 needs the verif-hooks build (CharReaderProbe)")
    inp = "\n".join(json.dumps({"chunks": v["chunks"], "ops": v["ops"]}) for v in vecs) + "\n"
    p = subprocess.run([binary, "charreader"], input=inp, stdout=subprocess.PIPE, stderr=subprocess.PIPE, text=True, timeout=1800)
    outs = [json.loads(l) for l in p.stdout.splitlines() if l.strip()]
    if len(outs) != len(vecs):
        rep.violation("charreader process died (rc=%s) on %s" % (p.returncode, json.dumps(vecs[len(outs)]) if len(outs) < len(vecs) else "?"),
                      {"vector": vecs[len(outs)] if len(outs) < len(vecs) else None, "stderr": p.stderr[-1500:]})
    for v, o in zip(vecs, outs):
        kinds = "".join(sorted(set(r["k"][0] for r in v["res"])))
        split = any(0 < len(c) and (c[-1] >= 192 or (len(c) > 1 and c[-2] >= 224 and c[-1] >= 128)) for c in v["chunks"][:-1])
        trunc = bool(v["res"]) and len(v["res"]) >= 2 and v["res"][-2]["k"] == "bad"
        rep.case((kinds, split, v["pat"], trunc, min(len(v["bytes"]), 5)))
        exp = []
        for op, it in zip(v["ops"], v["res"]):
            if op.startswith("putback") or op.startswith("consume"):
                exp.append({"ok": True})
            else:
                exp.append(expected(it))
        got = [norm(x) for x in o["res"]]
        if got != exp:
            k = next((i for i, (a, b) in enumerate(zip(got, exp)) if a != b), min(len(got), len(exp)))
            why = got[k] if k < len(got) else "missing"
            kind = "panic" if isinstance(why, dict) and "panic" in why else "mismatch"
            rep.violation("%s bytes=%s chunks=%s ops=%s: op %d expected %s got %s" % (
                kind, v["bytes"], v["chunks"], v["ops"], k + 1, exp[k] if k < len(exp) else "?", why),
                {"vector": v, "got": o})
    for v in vecs[:: max(1, len(vecs) // 5)]:
        rep.sample({"bytes": v["bytes"], "chunks": v["chunks"], "ops": v["ops"], "expected": [expected(i) for i in v["res"]]})
    rep.traces = len(vecs)
    rep.exhaustive = True
    rep.assumptions = ["TLC", "Utf8.tla (RFC 3629 + maximal invalid prefix)", "CharReader.tla transcription kept honest by the replay"]
    return rep.finish()


def replay(path):
    d = json.load(open(path))
    v = d["detail"]["vector"]
    binary, _ = build_harness(True)
    p = subprocess.run([binary, "charreader"], input=json.dumps({"chunks": v["chunks"], "ops": v["ops"]}) + "\n", stdout=subprocess.PIPE,
                       text=True, timeout=60)
    print("expected", [expected(i) for i in v["res"]])
    print("got     ", p.stdout.strip())
    return 0
