"""C17 - Malformed input never crashes or desynchronises the reader."""
import json
import os
import shutil

from lib import common, terms
from lib.common import Report, run_tlc, tlc_ok, run_jobs

PROP = "C17"

META = {
    "level": "model_checking",
    "text": "spec/Reader.tla is a token-level model of Prolog text (ISO 6.4: layout, % and /* */ comments, quoted items with "
            "their escape sequences and continuation lines, 0'c, longest-match symbol tokens, end token = '.' followed by "
            "layout, % or the end of the text). For any text it gives, for every offset a read may start from, where the "
            "clause ends, whether only layout / an unterminated item / no end token follows, and ReadSync: the sequence of "
            "outcomes (term | syntax_error | end_of_file) of repeated read_term/2. spec/ReaderCat.tla is a catalogue of 52 "
            "segments (valid clauses with the term they denote; malformations at parser level, at lexer level, unterminated "
            "items, undecodable bytes); TLC checks the catalogue against the tokenizer model, enumerates all sequences of <= 2 "
            "segments, all triples ending in a valid clause (thorough: also all triples that begin with a lexer-level "
            "malformation or an unterminated item), all token soups of <= 3 / 4 characters "
            "over a 16-character alphabet and random soups of 6 / 8 characters (each followed by an end token and a sentinel "
            "clause), and prints the text with the table of demanded outcomes. The driver writes each text to a file, loops "
            "read_term/2 until end_of_file recording result and stream position, follows the positions the implementation "
            "reports and compares each read with the model's entry for the offset it started from: result class (and the term "
            "itself for catalogue clauses), position after the end token, progress, termination, no panic; it re-reads every "
            "remaining text on a fresh stream (the next read behaves as a read of the rest) and reads single segments through "
            "read_term_from_chars/3.",
    "note": "Trusted: TLC, the harness, Python's file I/O. The model does not decide term-vs-error for arbitrary token "
            "sequences (no grammar): outside catalogue clauses only 'term or syntax_error' and the position are demanded; "
            "where a broken token has no defined extent (ill-formed escape sequence, 0' before a non-character) no position "
            "is demanded for that clause. Streams are file streams (Scryer has no Prolog-level memory streams) and "
            "read_term_from_chars/3. Operators are the default table plus those of library(dcgs) (the bar is an infix operator, as in the toplevel); flags are the defaults (double_quotes = chars).",
    "technique": "TLA+ token-level specification enumerated by TLC (catalogue sequences, bounded-exhaustive and random token "
                 "soup); vectors replayed through read_term/2 on files with position tracking and a fresh-stream differential",
}

BATCH = 100

PRELUDE = r"""
:- use_module(library(charsio)).
:- use_module(library(dcgs)).
c17_pos(S, P) :- ( stream_property(S, position(position_and_lines_read(P0, _))) -> P = P0 ; P = none ).
c17_reads(S, N, P0, Stuck, Out) :-
    (   N =< 0 -> Out = [cap]
    ;   catch((read_term(S, T, []) -> R = t(T) ; R = failed), error(E, _), R = e(E)),
        c17_pos(S, P),
        (   R = t(T0), T0 == end_of_file -> Out = [eof(P)]
        ;   ( P == P0 -> Stuck1 is Stuck + 1 ; Stuck1 = 0 ),
            (   Stuck1 >= 2 -> Out = [r(R, P), stuck]
            ;   Out = [r(R, P)|Out1], N1 is N - 1, c17_reads(S, N1, P, Stuck1, Out1)
            )
        )
    ).
c17_file(Path, N, Out) :-
    open(Path, read, S, []),
    catch(c17_reads(S, N, 0, 0, Out0), Ball, Out0 = [ball(Ball)]),
    catch(close(S), _, true),
    Out = Out0.
c17_chars(Chars, R) :-
    catch((read_term_from_chars(Chars, T, []) -> R = t(T) ; R = failed), error(E, _), R = e(E)).
"""


def encode(text):
    out = bytearray()
    for c in text:
        if c < 0:
            out.append(-c)
        else:
            out += chr(c).encode("utf-8")
    return bytes(out)


def pstr(s):
    return '"' + s.replace("\\", "\\\\").replace('"', '\\"') + '"'


def prolog_string(text):
    """text (non-negative codes, no NUL) as a double-quoted Prolog string"""
    out = []
    for c in text:
        ch = chr(c)
        if ch == '"':
            out.append('\\"')
        elif ch == "\\":
            out.append("\\\\")
        elif ch == "\n":
            out.append("\\n")
        elif c < 32 or c == 127:
            out.append("\\x%x\\" % c)
        else:
            out.append(ch)
    return '"' + "".join(out) + '"'


def list_items(t):
    items = []
    while t[0] == 'c' and t[1] == '.' and len(t[2]) == 2:
        items.append(t[2][0])
        t = t[2][1]
    return items


def norm_result(r):
    """r(R, P) item's R -> ('term', canonical) | ('err', kind) | ('othererr', text) | ('failed',)"""
    if r[0] == 'c' and r[1] == 't' and len(r[2]) == 1:
        return ('term', r[2][0])
    if r[0] == 'c' and r[1] == 'e' and len(r[2]) == 1:
        e = r[2][0]
        if e[0] == 'c' and e[1] == 'syntax_error' and len(e[2]) == 1:
            k = e[2][0]
            return ('err', k[1] if k[0] == 'a' else terms.show(k))
        return ('othererr', terms.show(e))
    if r == ('a', 'failed'):
        return ('failed',)
    return ('other', terms.show(r))


def parse_out(out):
    """harness answer of c17_file -> list of ('r', norm, pos) | ('eof', pos) | ('cap',) | ('stuck',) | ('ball', text)"""
    if out is None:
        return [('tool', 'no result')]
    if "panic" in out:
        return [('panic', out["panic"])]
    a = out.get("a", [])
    if not a or not isinstance(a[0], dict) or "b" not in a[0] or "Out" not in a[0]["b"]:
        return [('tool', json.dumps(out, ensure_ascii=False)[:200])]
    items = []
    for it in list_items(terms.from_h(a[0]["b"]["Out"])):
        if it[0] == 'c' and it[1] == 'r':
            p = it[2][1]
            items.append(('r', norm_result(it[2][0]), p[1] if p[0] == 'i' else None))
        elif it[0] == 'c' and it[1] == 'eof':
            p = it[2][0]
            items.append(('eof', p[1] if p[0] == 'i' else None))
        elif it == ('a', 'cap'):
            items.append(('cap',))
        elif it == ('a', 'stuck'):
            items.append(('stuck',))
        elif it[0] == 'c' and it[1] == 'ball':
            items.append(('ball', terms.show(it[2][0])))
        else:
            items.append(('other', terms.show(it)))
    return items


def shift(items, d):
    """positions relative to a suffix that starts at byte d; terms up to variable renaming"""
    out = []
    for it in items:
        if it[0] == 'r':
            out.append(('r', it[1], None if it[2] is None else it[2] - d))
        elif it[0] == 'eof':
            out.append(('eof', None if it[1] is None else it[1] - d))
        else:
            out.append(it)
    return out


def same_items(a, b):
    if len(a) != len(b):
        return False
    for x, y in zip(a, b):
        if x[0] != y[0]:
            return False
        if x[0] == 'r':
            if x[2] != y[2] or x[1][0] != y[1][0]:
                return False
            if x[1][0] == 'term':
                if not terms.variant(x[1][1], y[1][1]):
                    return False
            elif x[1] != y[1]:
                return False
        elif x != y:
            return False
    return True


def brief_items(items):
    out = []
    for it in items:
        if it[0] == 'r':
            n = it[1]
            out.append("%s@%s" % ("term" if n[0] == 'term' else ":".join(str(x) for x in n), it[2]))
        else:
            out.append(":".join(str(x) for x in it))
    return " ".join(out)[:300]


def char_class(c):
    if c == 0:
        return "nul"
    if c < 0:
        return "rawbyte"
    if c < 32 or c == 127:
        return "ctrl"
    return "other"


def label(vec):
    return "+".join(vec["names"]) if vec["cls"] == "cat" else "soup:" + json.dumps(vec["text"][:-17])


def walk(rep, vec, items, catalogue, stats):
    """compare the reads of one input with the model. Returns list of byte offsets where reads started (for the
    differential) paired with the index of the item."""
    text, boff, scan = vec["text"], vec["boff"], vec["scan"]
    nb = boff[-1]
    at = {b: p for p, b in enumerate(boff)}
    base = {"vector": {"cls": vec["cls"], "names": vec["names"], "text": text}}
    lab = label(vec)
    cur = 0
    starts = []
    for i, it in enumerate(items):
        if it[0] in ('panic',):
            rep.violation("panic %s input=%s" % (it[1], lab), dict(base, got=it[1]))
            return starts
        if it[0] in ('tool', 'other'):
            raise common.ToolError("unexpected harness answer for %s: %s" % (lab, it[1]))
        if it[0] == 'ball':
            rep.violation("non-error-ball %s input=%s" % (it[1][:80], lab), dict(base, got=it[1]))
            return starts
        if it[0] == 'cap':
            rep.violation("no-end-of-file-within-cap input=%s" % lab, dict(base, got=brief_items(items)))
            return starts
        if it[0] == 'stuck':
            return starts
        p = at.get(cur)
        if p is None:
            rep.violation("position-inside-character pos=%d input=%s" % (cur, lab), dict(base, got=brief_items(items)))
            return starts
        if not starts or starts[-1][0] != cur:
            starts.append((cur, i))
        kind, q, nl, fz, cls, seg, level = scan[p]
        stats["reads"] += 1
        if it[0] == 'eof':
            rep.case((vec["cls"], kind, "eof"))
            if kind != "eof":
                rep.violation("premature-end-of-file model=%s level=%s input=%s" % (kind, level, lab),
                              dict(base, at=cur, got=brief_items(items)))
            elif it[1] != nb:
                rep.violation("eof-position exp=%d got=%s input=%s" % (nb, it[1], lab), dict(base, got=brief_items(items)))
            return starts
        _, res, pos = it
        got = res[0] if res[0] != 'err' else "err:" + res[1]
        rep.case((vec["cls"], kind, cls, level, res[0]))
        if res[0] not in ('term', 'err'):
            rep.violation("neither-term-nor-syntax-error got=%s model=%s input=%s" % (":".join(res)[:80], kind, lab),
                          dict(base, at=cur, got=brief_items(items)))
            return starts
        if pos is None:
            raise common.ToolError("no stream position for %s" % lab)
        if pos == cur:
            c = text[p] if p < len(text) else None
            rep.violation("no-progress at=%s result=%s model=%s" % (char_class(c) if c is not None else "end", got, kind),
                          dict(base, at=cur, input=lab, got=brief_items(items)))
            cur = pos
            continue
        if kind == "eof":
            nxt = items[i + 1] if i + 1 < len(items) else None
            if res[0] == 'err' and nxt is not None and nxt[0] == 'eof' and pos == nb:
                rest = "comment" if any(c in (37, 47) for c in text[p:]) else "blank"
                rep.violation("trailing-layout exp=end_of_file got=%s rest=%s" % (got, rest),
                              dict(base, at=cur, input=lab, got=brief_items(items)))
            else:
                rep.violation("end-of-file-expected got=%s input=%s" % (got, lab), dict(base, at=cur, got=brief_items(items)))
        elif kind == "clause":
            allowed = [boff[q]] + ([boff[q + 1]] if nl else [])
            in_place = pos in allowed
            if cls == "err" and res[0] != 'err':
                rep.violation("class exp=syntax_error got=term level=%s seg=%s" % (level, catalogue[seg - 1]["name"] if seg else "-"),
                              dict(base, at=cur, input=lab, got=brief_items(items)))
            elif cls == "term" and (in_place or fz):
                want = terms.from_tla(catalogue[seg - 1]["term"])
                if res[0] != 'term' or not terms.variant(want, res[1]):
                    rep.violation("class exp=term:%s got=%s seg=%s" % (terms.show(want)[:60], got if res[0] != 'term' else terms.show(res[1])[:60],
                                                                       catalogue[seg - 1]["name"]),
                                  dict(base, at=cur, input=lab, got=brief_items(items)))
            if not fz and not in_place:
                if cur < pos < allowed[0]:
                    rep.violation("desync mid-clause level=%s got=%s" % (level, got), dict(base, at=cur, input=lab, exp=allowed, got=brief_items(items)))
                else:
                    rep.violation("desync past-end level=%s got=%s exp=%s pos=%d input=%s" % (level, got, allowed, pos, lab),
                                  dict(base, at=cur, exp=allowed, got=brief_items(items)))
                stats["desync"] += 1
        else:   # open / noend: a syntax error, and the text is consumed
            if res[0] != 'err':
                rep.violation("class exp=syntax_error got=term level=%s model=%s input=%s" % (level, kind, lab),
                              dict(base, at=cur, got=brief_items(items)))
            if pos != nb and not fz:
                if pos < nb:
                    rep.violation("desync mid-clause level=open got=%s" % got, dict(base, at=cur, input=lab, exp=[nb], got=brief_items(items)))
                    stats["desync"] += 1
                else:
                    rep.violation("desync past-end level=open input=%s" % lab, dict(base, at=cur, got=brief_items(items)))
        cur = pos
    rep.violation("reads-ended-without-end-of-file input=%s" % lab, dict(base, got=brief_items(items)))
    return starts


def run_files(wdir, contents, tag):
    """contents: list of bytes -> list of parsed item lists (same order). A hang/abort of the code under test is data."""
    results = [None] * len(contents)
    pending = [(i, False) for i in range(len(contents))]
    rounds = 0
    crashes = {}
    while pending and rounds < 8:
        rounds += 1
        groups, batch = [], []
        for i, solo in pending:
            if solo:
                groups.append([i])
            else:
                batch.append(i)
                if len(batch) == BATCH:
                    groups.append(batch)
                    batch = []
        if batch:
            groups.append(batch)
        jobs, plan = [], {}
        for gi, chunk in enumerate(groups):
            steps = [{"consult": PRELUDE}]
            for i in chunk:
                path = os.path.join(wdir, "%s_%d.pl" % (tag, i))
                with open(path, "wb") as f:
                    f.write(contents[i])
                steps.append({"q": "c17_file(%s, %d, Out)." % (pstr(path), len(contents[i]) + 6), "max": 1})
            jid = "%s-%d-%d" % (tag, rounds, gi)
            jobs.append({"id": jid, "steps": steps, "timeout": 240 if len(chunk) > 1 else 40, "fresh": True})
            plan[jid] = chunk
        res = run_jobs(jobs, workers=8, job_timeout=240)
        nxt = []
        for job in jobs:
            chunk = plan[job["id"]]
            r = res.get(job["id"], {"crash": "missing"})
            if "crash" in r:
                if len(chunk) == 1:
                    results[chunk[0]] = [('panic', "worker " + r["crash"])]
                else:
                    nxt += [(i, True) for i in chunk]
                continue
            rr = r["res"][1:]
            lost = False
            for i, out in zip(chunk, rr):
                if lost:
                    nxt.append((i, rounds >= 2))     # after a second loss in a row: one machine per input
                    continue
                results[i] = parse_out(out)
                if "panic" in out:
                    lost = True          # the machine was rebuilt: the prelude is gone for the rest of this job
        for i in range(len(contents)):
            try:
                os.unlink(os.path.join(wdir, "%s_%d.pl" % (tag, i)))
            except OSError:
                pass
        pending = nxt
    if pending:
        raise common.ToolError("could not run %d inputs after %d rounds" % (len(pending), rounds))
    return results


def run(tier):
    rep = Report(PROP, tier, META["level"])
    rep.rule = ("inputs = concatenations of catalogue segments (all sequences of <= 2 of 50 segments, those followed by the "
                "clause z., thorough: all triples starting with a lexer-level malformation or an unterminated item; undecodable "
                "bytes only alone or next to z.), all token soups of <= 3 / 4 "
                "characters over {a x 0 . space newline ' \" ` \\ % / * (} and random soups of 6 / 8 characters, each followed by "
                "' .' and sentinel(42). Every read of every input is compared with the model. distinct = (input family, model "
                "kind of the read, demanded class, level of the malformation, observed class)")
    workers = 8
    vecs, catalogue = [], None
    for mode in ("enum",):
        res, vs = common.generate("MC_C17", "MC_C17_%s.cfg" % tier, workers=workers, timeout=3000)
        rep.add_tlc(res)
        for v in vs:
            if "catalogue" in v:
                catalogue = v["catalogue"]
            else:
                vecs.append(v)
    # TLC checks the invariants (and so prints) on all 14 successors of the last step of each random trace
    nwalk = 100 if tier == "quick" else 700
    for r in common.simulate_parallel("MC_C17", "MC_C17_walk_%s.cfg" % tier, procs=2 if tier == "quick" else 4, num=nwalk,
                                      depth=(6 if tier == "quick" else 8) + 1, timeout=3000):
        tlc_ok(r, "C17 walks")
        rep.add_tlc(r)
        for v in r.printed():
            if "catalogue" not in v:
                vecs.append(v)
    # distinct texts only
    seen, uniq = set(), []
    for v in vecs:
        k = (v["cls"], tuple(v["text"]))
        if k not in seen:
            seen.add(k)
            uniq.append(v)
    vecs = uniq
    if not vecs or catalogue is None:
        raise common.ToolError("no vectors generated")
    return replay_vectors(rep, vecs, catalogue)


def replay_vectors(rep, vecs, catalogue):
    wdir = os.path.join(common.WORK, "c17-%d" % os.getpid())
    shutil.rmtree(wdir, ignore_errors=True)
    os.makedirs(wdir)
    stats = {"reads": 0, "desync": 0, "differential": 0, "chars": 0}
    try:
        contents = [encode(v["text"]) for v in vecs]
        main = run_files(wdir, contents, "in")
        suffixes = {}          # remaining bytes -> list of (vector index, item index, byte offset)
        for vi, (v, items) in enumerate(zip(vecs, main)):
            starts = walk(rep, v, items, catalogue, stats)
            for cur, i in starts:
                if cur > 0 and cur < len(contents[vi]):
                    suffixes.setdefault(contents[vi][cur:], []).append((vi, i, cur))
        # the next read behaves as a read of the remaining text on a fresh stream
        keys = sorted(suffixes)
        fresh = run_files(wdir, keys, "sfx")
        for key, fitems in zip(keys, fresh):
            for (vi, i, cur) in suffixes[key]:
                stats["differential"] += 1
                rest = shift(main[vi][i:], cur)
                if fitems and fitems[0][0] == 'panic':
                    rep.violation("panic %s suffix-of=%s" % (fitems[0][1], label(vecs[vi])), {"vector": vecs[vi], "at": cur})
                    break
                if not same_items(rest, fitems):
                    rep.violation("differential input=%s at=%d" % (label(vecs[vi]), cur),
                                  {"vector": {"cls": vecs[vi]["cls"], "names": vecs[vi]["names"], "text": vecs[vi]["text"]},
                                   "at": cur, "on_stream": brief_items(rest), "fresh": brief_items(fitems)})
                    break
        # single catalogue segments through read_term_from_chars/3
        singles = [(vi, v) for vi, v in enumerate(vecs)
                   if v["cls"] == "cat" and len(v["names"]) == 1 and all(c > 0 for c in v["text"])]
        if singles:
            steps = [{"consult": PRELUDE}] + [{"q": "c17_chars(%s, R)." % prolog_string(v["text"]), "max": 1} for _, v in singles]
            r = run_jobs([{"id": "chars", "steps": steps, "timeout": 120, "fresh": True}], workers=1, job_timeout=120)["chars"]
            if "crash" in r:
                rep.violation("crash read_term_from_chars batch: %s" % r["crash"], {"got": r["crash"]})
            else:
                for (vi, v), out in zip(singles, r["res"][1:]):
                    stats["chars"] += 1
                    kind, q, nl, fz, cls, seg, level = v["scan"][0]
                    name = v["names"][0]
                    if "panic" in out:
                        rep.violation("panic %s read_term_from_chars seg=%s" % (out["panic"], name), {"vector": v})
                        break
                    a = out.get("a", [])
                    if not a or not isinstance(a[0], dict) or "b" not in a[0]:
                        rep.violation("read_term_from_chars no-answer seg=%s" % name, {"vector": v, "got": json.dumps(out)[:200]})
                        continue
                    res = norm_result(terms.from_h(a[0]["b"]["R"]))
                    rep.case(("chars", kind, cls, level, res[0]))
                    first = main[vi][0] if main[vi] else None
                    if kind == "eof":
                        continue
                    if res[0] not in ("term", "err"):
                        rep.violation("read_term_from_chars neither-term-nor-syntax-error seg=%s got=%s" % (name, ":".join(res)[:80]), {"vector": v})
                    elif kind == "clause" and cls == "term":
                        want = terms.from_tla(catalogue[seg - 1]["term"])
                        if res[0] != "term" or not terms.variant(want, res[1]):
                            rep.violation("read_term_from_chars class exp=term seg=%s got=%s" % (name, res[0]), {"vector": v})
                    elif (kind != "clause" or cls == "err") and res[0] != "err":
                        rep.violation("read_term_from_chars class exp=syntax_error seg=%s got=term" % name, {"vector": v})
                    if first is not None and first[0] == 'r' and first[1][0] != res[0]:
                        rep.violation("read_term_from_chars differs-from-stream seg=%s stream=%s chars=%s" % (name, first[1][0], res[0]),
                                      {"vector": v})
    finally:
        shutil.rmtree(wdir, ignore_errors=True)
    rep.traces = len(vecs)
    rep.extra["reads_compared"] = stats["reads"]
    rep.extra["fresh_stream_differentials"] = stats["differential"]
    rep.extra["read_term_from_chars_cases"] = stats["chars"]
    rep.extra["reads_left_mid_clause"] = stats["desync"]
    for v in vecs[:: max(1, len(vecs) // 5)]:
        rep.sample({"input": label(v), "reads": v["reads"]})
    rep.exhaustive = True
    rep.assumptions = ["TLC, spec/Reader.tla (token-level model; the catalogue is checked against it by ASSUME)",
                       "stream_property position/1 as the observation of where a read stopped",
                       "the harness's LeafAnswer projection; Python file I/O"]
    return rep.finish()


def replay(path):
    d = json.load(open(path))
    v = d["detail"]["vector"]
    wdir = os.path.join(common.WORK, "c17-replay-%d" % os.getpid())
    os.makedirs(wdir, exist_ok=True)
    try:
        data = encode(v["text"])
        items = run_files(wdir, [data], "rp")[0]
        print("input (%s): %r" % (label(v), data))
        print("reads on the stream:", brief_items(items))
        at = d["detail"].get("at")
        if at:
            fresh = run_files(wdir, [data[at:]], "rs")[0]
            print("reads of the text from byte %d on a fresh stream: %s" % (at, brief_items(fresh)))
        for k in ("exp", "got", "on_stream", "fresh"):
            if k in d["detail"]:
                print("recorded %s: %s" % (k, d["detail"][k]))
    finally:
        shutil.rmtree(wdir, ignore_errors=True)
    return 0
