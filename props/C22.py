"""C22 - Atom and character builtins agree with their string semantics."""
import json
import unicodedata
from lib import common, terms
from lib.common import Report, run_jobs

PROP = "C22"

META = {
    "level": "model_checking",
    "text": "atom_length/2, atom_chars/2, atom_codes/2, char_code/2, atom_concat/3 and sub_atom/5 are specified in TLA+ "
            "(Text.tla, AtomBuiltins.tla) as functions from the argument pattern of a call to the ordered sequence of "
            "solutions or to the set of admissible ISO 8.16 errors; char_type/2 is specified for a hand-written table of 26 "
            "characters (Unicode properties, full case mappings, ISO 6.5 character classes). TLC enumerates every atom of "
            "length <= 3 over {a, B, e-acute, U+1F600, 0, space} (quick: length <= 2 plus 12 of length 3), '', two long "
            "multi-byte atoms and two atoms with NUL, crossed with bound-correct / bound-wrong / unbound / ill-typed "
            "argument patterns, checks the specification's own sanity (each solution once, ISO order, UTF-8 round trip) "
            "and prints one vector per call; every vector is replayed against the real builtins through findall/3 and "
            "catch/3. Bounded-exhaustive conformance, not proof.",
    "note": "Trusted: TLC, the character table (cross-checked against Python's unicodedata in the same run), the query "
            "renderer (atoms are built with atom_codes/2 inside the query, so the reader's quoting is not involved) and "
            "the LeafAnswer projection of the harness (improper character lists are compared inside Prolog because the "
            "projection cannot carry them). Where ISO 13211-1:1995 and its Cor.3 differ (guards of the list conditions of "
            "atom_chars/atom_codes) both are accepted. char_type/2 categories without an implementation-independent "
            "definition (alnum, alpha, layout, prolog, symbolic_control) and characters outside the table are not asserted.",
    "technique": "TLA+ value-level specification enumerated by TLC; vectors replayed into the real builtins",
}

BIG = 1 << 70
PRED = {"char_type_err": "char_type"}     # vector kind -> predicate called
BATCH = 150


# ------------------------------------------------------------------------------------------------
# rendering of spec terms: to query text and to canonical tuples
# ------------------------------------------------------------------------------------------------

class Renderer:
    """renders the argument terms of one call; atoms become variables bound by atom_codes/2 in the setup"""

    def __init__(self):
        self.atoms = {}     # text tuple -> variable name
        self.nvars = 0

    def atom_var(self, cp):
        key = tuple(cp)
        if key not in self.atoms:
            self.atoms[key] = "X%d" % len(self.atoms)
        return self.atoms[key]

    def fresh(self):
        self.nvars += 1
        return "V%d" % self.nvars

    def text(self, t):
        k = t["k"]
        if k == "var":
            return self.fresh()
        if k == "atom":
            return self.atom_var(t["cp"])
        if k == "int":
            return str(t["i"]) if t["i"] >= 0 else "(%d)" % t["i"]
        if k == "big":
            return str(BIG) if t["i"] > 0 else "(-%d)" % BIG
        if k == "flt":
            return "1.5"
        if k == "cmp":
            return "f(a)"
        if k == "list":
            items = [self.text(e) for e in t["xs"]]
            tl = t["tl"]
            if tl == "nil":
                return "[" + ",".join(items) + "]"
            tail = self.fresh() if tl == "var" else "b"
            return "[" + ",".join(items) + "|" + tail + "]"
        raise ValueError(t)

    def setup(self):
        return "".join("atom_codes(%s,[%s]), " % (v, ",".join(str(c) for c in cp)) for cp, v in self.atoms.items())


def cp_text(cp):
    return "".join(chr(c) for c in cp)


_vc = [0]


def canon(t):
    """spec term -> canonical tuple of lib/terms.py"""
    k = t["k"]
    if k == "var":
        _vc[0] += 1
        return ('v', "_S%d" % _vc[0])
    if k == "atom":
        return ('a', cp_text(t["cp"]))
    if k == "int":
        return ('i', t["i"])
    if k == "big":
        return ('i', BIG * t["i"])
    if k == "flt":
        return ('f', terms.float_bits(1.5))
    if k == "cmp":
        return ('c', 'f', (('a', 'a'),))
    if k == "list":
        tl = t["tl"]
        if tl == "nil":
            tail = terms.NIL
        elif tl == "var":
            _vc[0] += 1
            tail = ('v', "_S%d" % _vc[0])
        else:
            tail = ('a', 'b')
        return terms.mk_list([canon(e) for e in t["xs"]], tail)
    raise ValueError(t)


def is_improper(t):
    return t["k"] == "list" and t["tl"] == "bad"


def canon_err(e):
    if e["e"] == "instantiation_error":
        return ('a', 'instantiation_error')
    if e["e"] == "representation_error":
        return ('c', 'representation_error', (('a', e["ty"]),))
    if e["e"] in ("type_error", "domain_error"):
        culprit = ('a', '$same') if is_improper(e["c"]) else canon(e["c"])
        return ('c', e["e"], (('a', e["ty"]), culprit))
    raise ValueError(e)


def show_arg(t):
    """human-readable argument for signatures"""
    k = t["k"]
    if k == "var":
        return "_"
    if k == "atom":
        return terms.quote_atom(cp_text(t["cp"]))
    if k == "list":
        items = ",".join(show_arg(e) for e in t["xs"])
        return "[" + items + {"nil": "]", "var": "|_]", "bad": "|b]"}[t["tl"]]
    return Renderer().text(t)


def call_text(v):
    return "%s(%s)" % (PRED.get(v["b"], v["b"]), ",".join(show_arg(a) for a in v["args"]))


def build_query(v):
    """query text of one call vector"""
    r = Renderer()
    args = [r.text(a) for a in v["args"]]
    goal = "%s(%s)" % (PRED.get(v["b"], v["b"]), ",".join(args))
    tmpl = "r(%s)" % ",".join(args)
    improper = [e["c"] for e in v["req"] + v["opt"] if e["e"] == "type_error" and is_improper(e["c"])]
    q = "catch(findall(%s, %s, Sols), error(E0,_), true), " % (tmpl, goal)
    if improper:
        # the culprit is an improper list: compare it inside Prolog (the answer projection cannot carry it);
        # it is re-rendered with the same atom variables and is ground (no fresh variables needed)
        rr = Renderer()
        rr.atoms = r.atoms
        ctext = rr.text(improper[0])
        q += ("( nonvar(E0), E0 = type_error(list, C0) -> ( C0 == %s -> C = '$same' ; C = '$other' ), "
              "E = type_error(list, C) ; E = E0 )." % ctext)
    else:
        q += "E = E0."
    return r.setup() + q


def observe(out):
    """harness result of one query -> ('panic', msg) | ('err', canonical) | ('sols', canonical list) | ('other', x)"""
    if "panic" in out:
        return ("panic", out["panic"])
    a = out.get("a", [])
    if len(a) == 1 and isinstance(a[0], dict) and "b" in a[0]:
        b = a[0]["b"]
        e = b.get("E")
        s = b.get("Sols")
        if e is not None and "v" not in e:
            return ("err", terms.from_h(e))
        if s is not None and "v" not in s:
            return ("sols", terms.from_h(s))
    return ("other", a)


def expected_sols(v):
    return terms.mk_list([('c', 'r', tuple(canon(t) for t in sol)) for sol in v["sols"]])


def judge(v, obs):
    """does the observation agree with the spec's verdict for this call?"""
    req = [canon_err(e) for e in v["req"]]
    opt = [canon_err(e) for e in v["opt"]]
    if obs[0] == "err":
        return any(terms.variant(e, obs[1]) for e in req + opt)
    if obs[0] == "sols":
        return (not req) and terms.variant(expected_sols(v), obs[1])
    return False


def summarize(v):
    if v["req"]:
        return "error in {%s}" % ", ".join(sorted(set(terms.show(canon_err(e)) for e in v["req"] + v["opt"])))
    s = "%d solutions" % len(v["sols"])
    if v["opt"]:
        s += " or error in {%s}" % ", ".join(sorted(set(terms.show(canon_err(e)) for e in v["opt"])))
    return s


def show_obs(obs):
    if obs[0] == "err":
        return "error " + terms.show(obs[1])
    if obs[0] == "sols":
        n = 0
        cur = obs[1]
        while cur[0] == 'c' and cur[1] == '.':
            n += 1
            cur = cur[2][1]
        return "%d solutions %s" % (n, terms.show(obs[1])[:200])
    if obs[0] == "panic":
        return "panic " + obs[1]
    return "other %r" % (obs[1],)


def arg_kind(t):
    if t["k"] == "list":
        kinds = sorted(set(e["k"] for e in t["xs"]))
        return "list(%s|%s)" % ("+".join(kinds), t["tl"])
    if t["k"] == "int":
        return "int-" if t["i"] < 0 else "int"
    if t["k"] == "atom":
        n = len(t["cp"])
        mb = any(c > 127 for c in t["cp"])
        return "atom%s%s" % ("0" if n == 0 else "1" if n == 1 else "n", "u" if mb else "")
    return t["k"]


def coverage_class(v):
    out = "err:" + "/".join(sorted(set(e["e"] + "." + e["ty"] for e in v["req"]))) if v["req"] else \
        "sols:%s" % (len(v["sols"]) if len(v["sols"]) < 3 else "many") + ("+opt" if v["opt"] else "")
    return (v["b"], tuple(arg_kind(a) for a in v["args"]), out)


# ------------------------------------------------------------------------------------------------
# char_type/2
# ------------------------------------------------------------------------------------------------

def chars_term(cp):
    return terms.mk_list([('a', chr(c)) for c in cp])


def unicode_selfcheck(v):
    """the hand-written table of Text.tla against Python's unicodedata (a mismatch is a tool error)"""
    c = v["c"]
    ch = chr(c)
    cats = set(v["cats"])
    cat = unicodedata.category(ch)
    checks = {
        "numeric": cat in ("Nd", "Nl", "No"),
        "control": cat == "Cc",
        "upper": ch.isupper() if cat != "Lt" else False,
        "lower": ch.islower(),
        "whitespace": ch.isspace() or c in (0x85,),
        "ascii": c < 128,
        "octet": c < 256,
    }
    if cat[0] == "L" or cat == "Nl":
        checks["alphabetic"] = True
    if cat in ("So", "Nd", "No", "Zs", "Cc", "Pc", "Sm", "Po"):
        checks["alphabetic"] = False
    for k, want in checks.items():
        if (k in cats) != want:
            raise common.ToolError("character table self-check failed for U+%04X: %s is %s in the table, Python says %s"
                                   % (c, k, k in cats, want))
    if [ord(x) for x in ch.upper()] != v["up"] or [ord(x) for x in ch.lower()] != v["lo"]:
        raise common.ToolError("character table self-check failed for U+%04X: case mappings %r/%r vs Python %r/%r"
                               % (c, v["up"], v["lo"], ch.upper(), ch.lower()))


def char_type_queries(v):
    c = v["c"]
    cats = ",".join(v["allcats"])
    pre = "atom_codes(C,[%d]), " % c
    return [
        pre + "findall(T-N, (member(T,[%s]), findall(x, char_type(C,T), Xs), length(Xs,N)), L)." % cats,
        pre + "findall(T, char_type(C,T), L).",
        pre + "findall(U, char_type(C,upper(U)), L).",
        pre + "findall(U, char_type(C,lower(U)), L).",
        pre + "atom_codes(A,[%s]), atom_chars(A,U), findall(x, char_type(C,upper(U)), L)." % ",".join(map(str, v["up"])),
        pre + "atom_codes(A,[%s]), atom_chars(A,U), findall(x, char_type(C,lower(U)), L)." % ",".join(map(str, v["lo"])),
    ]


def get_L(out):
    if "panic" in out:
        return None, "panic " + out["panic"]
    a = out.get("a", [])
    if len(a) == 1 and isinstance(a[0], dict) and "b" in a[0] and "L" in a[0]["b"]:
        return terms.from_h(a[0]["b"]["L"]), None
    return None, "unexpected answer %r" % (a,)


def list_items(t):
    items = []
    while t[0] == 'c' and t[1] == '.' and len(t[2]) == 2:
        items.append(t[2][0])
        t = t[2][1]
    return items


def check_char_type(rep, v, outs, queries):
    c = v["c"]
    name = "U+%04X" % c
    fits = set(v["cats"])
    up, lo = chars_term(v["up"]), chars_term(v["lo"])

    def bad(sig, **kw):
        d = {"vector": v, "queries": queries}
        d.update(kw)
        rep.violation(sig, d)

    def case_mapping(which, got_items, mode):
        want = up if which == "upper" else lo
        other = lo if which == "upper" else up
        rep.case(("char_type", mode, which + "(_)", len(v["up" if which == "upper" else "lo"])))
        if len(got_items) == 1 and got_items[0] == want:
            return
        flag = ""
        if len(got_items) == 1 and got_items[0] == other and which == "lower":
            flag = " got-is-uppercase-mapping"
        elif len(got_items) == 1 and got_items[0] == other:
            flag = " got-is-lowercase-mapping"
        bad("char_type(%s, %s%s(L)) expected L=%s got %s%s" % (
            name, "-Type " if mode == "enum" else "", which, terms.show(want),
            "[" + ",".join(terms.show(g) for g in got_items) + "]", flag))

    # 1. mode (+,+) for every specified category
    L, err = get_L(outs[0])
    if err:
        bad("char_type(%s, +Category) %s" % (name, err))
    else:
        got = {}
        for it in list_items(L):
            got[it[2][0][1]] = it[2][1][1]
        for cat in v["allcats"]:
            rep.case(("char_type", "test", cat, cat in fits))
            n = got.get(cat)
            if n is None or (n > 0) != (cat in fits):
                bad("char_type(%s, %s) expected %s got %s solutions" % (name, cat, "true" if cat in fits else "false", n))
    # 2. mode (+,-): every fitting category exactly once, nothing specified that does not fit
    L, err = get_L(outs[1])
    if err:
        bad("char_type(%s, -Type) %s" % (name, err))
    else:
        items = list_items(L)
        atoms = [it[1] for it in items if it[0] == 'a']
        rep.case(("char_type", "enum", len(fits)))
        for cat in v["allcats"]:
            n = atoms.count(cat)
            if n != (1 if cat in fits else 0):
                bad("char_type(%s, -Type) yields %s %d times, expected %d" % (name, cat, n, 1 if cat in fits else 0))
        for which in ("upper", "lower"):
            got_items = [it[2][0] for it in items if it[0] == 'c' and it[1] == which and len(it[2]) == 1]
            case_mapping(which, got_items, "enum")
    # 3. case mappings asked directly, unbound and bound
    asked = {}
    for k, which in ((2, "upper"), (3, "lower")):
        L, err = get_L(outs[k])
        if err:
            bad("char_type(%s, %s(L)) %s" % (name, which, err))
        else:
            asked[which] = list_items(L)
            case_mapping(which, asked[which], "ask")
    for k, which in ((4, "upper"), (5, "lower")):
        L, err = get_L(outs[k])
        rep.case(("char_type", "bound", which))
        if err or len(list_items(L)) < 1:
            # the same defect as in the unbound mode when that mode answered with the uppercase mapping
            flag = " got-is-uppercase-mapping" if (which == "lower" and v["up"] != v["lo"]
                                                   and asked.get("lower") == [up]) else ""
            bad("char_type(%s, %s(+%s)) expected true got %s%s" % (
                name, which, terms.show(up if which == "upper" else lo), err or "false", flag))


def check_char_type_enum(rep, v, out, query):
    rep.case(("char_type", "enum-chars", v["cat"]))
    L, err = get_L(out)
    want = sorted(v["chars"])
    if err:
        rep.violation("char_type(-Char, %s) %s" % (v["cat"], err), {"vector": v, "queries": [query]})
        return
    got = [ord(it[1]) if it[0] == 'a' and len(it[1]) == 1 else None for it in list_items(L)]
    if sorted(g for g in got if g is not None) != want or None in got:
        rep.violation("char_type(-Char, %s) expected exactly the characters %s got %s" % (
            v["cat"], cp_text(want), got[:80]), {"vector": v, "queries": [query]})


# ------------------------------------------------------------------------------------------------
# the check
# ------------------------------------------------------------------------------------------------

LIBS = "use_module(library(charsio)), use_module(library(lists))."


def run(tier):
    rep = Report(PROP, tier, META["level"])
    rep.rule = ("TLC enumerates (builtin, atom text, argument pattern): atoms of length <= 3 over {a,B,U+E9,U+1F600,0,space} "
                "(quick: <= 2 plus 12 samples), '', two long atoms, two atoms with NUL; patterns: every bound/unbound mask over "
                "every true solution, single-argument perturbations to wrong values, partial lists, lists with variables or "
                "non-characters, improper lists, and the cross product of ill-typed arguments on one atom; char_type/2 on 26 "
                "table characters x 22 categories + case mappings. distinct = (builtin, kind of each argument, outcome class)")
    res, vecs = common.generate("MC_C22", "MC_C22_%s.cfg" % tier, workers=8 if tier == "quick" else 12,
                                timeout=600 if tier == "quick" else 3600)
    rep.add_tlc(res)
    calls = [v for v in vecs if v["b"] not in ("char_type", "char_type_enum", "char_type_err")]
    cterrs = [v for v in vecs if v["b"] == "char_type_err"]
    ctypes = [v for v in vecs if v["b"] == "char_type"]
    cenums = [v for v in vecs if v["b"] == "char_type_enum"]
    if len(calls) < 1000 or len(ctypes) < 20 or not cenums or not cterrs:
        raise common.ToolError("too few vectors generated (%d calls, %d characters)" % (len(calls), len(ctypes)))
    for v in ctypes:
        unicode_selfcheck(v)
    calls.sort(key=lambda v: json.dumps(v, sort_keys=True))

    jobs = []
    meta = {}
    for bi in range(0, len(calls), BATCH):
        batch = calls[bi:bi + BATCH]
        qs = [build_query(v) for v in batch]
        jid = "calls-%d" % bi
        jobs.append({"id": jid, "steps": [{"q": q, "max": 2} for q in qs], "timeout": 300})
        meta[jid] = ("calls", batch, qs)
    for i, v in enumerate(ctypes):
        qs = char_type_queries(v)
        jid = "ctype-%d" % i
        jobs.append({"id": jid, "steps": [{"q": LIBS}] + [{"q": q, "max": 2} for q in qs], "timeout": 120})
        meta[jid] = ("ctype", v, qs)
    for i, v in enumerate(cenums):
        q = "findall(C, char_type(C, %s), L)." % v["cat"]
        jid = "cenum-%d" % i
        jobs.append({"id": jid, "steps": [{"q": LIBS}, {"q": q, "max": 2}], "timeout": 600})
        meta[jid] = ("cenum", v, q)
    qs = [build_query(v) for v in cterrs]
    jobs.append({"id": "cterr", "steps": [{"q": LIBS}] + [{"q": q, "max": 2} for q in qs], "timeout": 120})
    meta["cterr"] = ("cterr", cterrs, qs)

    results = run_jobs(jobs, workers=8, job_timeout=300)

    for job in jobs:
        kind, v, qs = meta[job["id"]]
        r = results.get(job["id"], {"crash": "missing"})
        if "crash" in r:
            if r["crash"] == "timeout" or "died" in str(r["crash"]):
                rep.violation("job %s %s" % (job["id"], r["crash"]), {"job": job, "result": r})
            else:
                raise common.ToolError("harness job %s: %s" % (job["id"], r["crash"]))
            continue
        outs = r["res"]
        if kind in ("calls", "cterr"):
            if kind == "cterr":
                outs = outs[1:]
            for vec, q, out in zip(v, qs, outs):
                rep.case(coverage_class(vec))
                obs = observe(out)
                if not judge(vec, obs):
                    sig = "%s :: expected %s :: got %s" % (call_text(vec), summarize(vec), show_obs(obs))
                    rep.violation(sig, {"vector": vec, "queries": [q], "expected": summarize(vec), "got": show_obs(obs)})
        elif kind == "ctype":
            check_char_type(rep, v, outs[1:], qs)
        elif kind == "cenum":
            check_char_type_enum(rep, v, outs[1], qs)
    for v in calls[:: max(1, len(calls) // 5)]:
        rep.sample({"call": call_text(v), "expected": summarize(v)})
    rep.exhaustive = True
    rep.traces = len(calls) + len(ctypes) + len(cenums) + len(cterrs)
    rep.assumptions = ["TLC and the Text/AtomBuiltins modules (sanity invariants checked in this run; character table "
                       "cross-checked against Python's unicodedata)",
                       "query renderer (atoms built with atom_codes/2, plain decimal numbers) and LeafAnswer projection of the harness",
                       "ISO 13211-1 8.16 error conditions in the 1995 wording are required, the Cor.3 wording is additionally accepted"]
    return rep.finish()


def replay(path):
    d = json.load(open(path))
    det = d["detail"]
    qs = det.get("queries", [])
    jobs = [{"id": 0, "steps": [{"q": LIBS}] + [{"q": q, "max": 2} for q in qs], "timeout": 300}]
    r = run_jobs(jobs, workers=1)[0]
    print(json.dumps({"signature": d["signature"], "expected": det.get("expected"), "queries": qs,
                      "result": r.get("res", r)[1:] if "res" in r else r}, indent=1, default=str, ensure_ascii=False))
    v = det.get("vector")
    if v and "args" in v and "res" in r:
        ok = judge(v, observe(r["res"][1]))
        print("agrees with the specification" if ok else "still disagrees with the specification")
        return 0 if ok else 1
    return 0
