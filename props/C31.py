"""C31 - An interrupt at any point is caught cleanly."""
import json
from lib import faults

PROP = "C31"
META = {
    "level": "fault_enumeration",
    "text": "Faults.tla composes the abstract machine with an environment action that delivers one interrupt at an arbitrary step; TLC runs "
            "9 workloads (recursion, findall, nested catch, assert loop, negation/if-then-else, retract, goals suspended by freeze/2 woken by a head or an inline unification) with the fault at every step, checks "
            "machine consistency in every terminal state and yields the set of admissible outcomes. The real machine runs the same workloads "
            "with the interrupt flag raised exactly when the n-th instruction is dispatched (verif-hooks), for every n in the dense range and "
            "strided beyond; each observed outcome (answers, caught/uncaught ball, side-effect log, dynamic database) must be an admissible "
            "outcome and a follow-up battery must behave as on a fresh machine.",
    "note": "Trusted: TLC; Prolog.tla/Faults.tla; the instruction-count injector (delivers at an instruction boundary, as the production check "
            "every 256 instructions does). The spec's step granularity is coarser than instructions: the real outcome must coincide with the "
            "outcome for SOME spec fault step (inferred, not logged). Interrupts inside foreign/blocking builtins are not covered.",
    "technique": "TLA+ fault model explored by TLC; fault injection at every instruction boundary of the real dispatch loop, outcomes matched to the specification's outcome set",
}


def run(tier):
    return faults.run(PROP, "interrupt", tier, "instruction-count interrupt injector of the verif-hooks build")


def replay(path):
    d = json.load(open(path))
    print(json.dumps(d["detail"], indent=1)[:3000])
    return 0
