"""C44 - Prolog flags read back what was set."""
import json

from lib import common, terms
from lib.common import Report, run_tlc, tlc_ok, run_jobs

PROP = "C44"

META = {
    "level": "model_checking",
    "text": "The Prolog flags are specified in TLA+ (spec/Flags.tla) as a state machine over the documented flag list of "
            "builtins.pl (max_arity, bounded, integer_rounding_function, max_integer, min_integer read-only; double_quotes, "
            "occurs_check, unknown, answer_write_options changeable): current_prolog_flag/2 as a relation that answers alike "
            "whether the flag is given or enumerated, set_prolog_flag/2 with its admissible outcomes (success exactly when the "
            "value is read back afterwards, the errors of ISO 8.17.1.3, read-only flags unchangeable) and the effects of "
            "double_quotes on reading, occurs_check on X = f(X) and unknown on a call of an undefined procedure. TLC explores "
            "the complete state graph (81 flag states) and applies every call of the universe (every flag x valid values, a value "
            "outside the domain, an integer, an unbound value; unknown, non-atom and unbound flags) in every state, checking the "
            "property on the specification itself; every transition is replayed on the real machine with a full read-back "
            "(enumeration, flag given with unbound and with bound value, value given) and the three effect probes after it. "
            "Thorough adds random histories.",
    "note": "Trusted: TLC, the harness, the canonical text renderer. Because every transition of the complete state graph is "
            "replayed, histories of any length are covered as far as behaviour depends on the flag state only; random histories "
            "(thorough) probe for behaviour that does not. For read-only flags both the ISO permission_error and the documented "
            "failure are accepted; the Formal of the error raised under occurs_check=error is not specified by the documentation "
            "and not compared. The effect of answer_write_options on the toplevel is not observed (C29).",
    "technique": "TLA+ state-machine specification explored exhaustively by TLC; every transition replayed into the real machine",
}

ERRV = "E__"
CHUNK = 60

HELPERS = r"""
:- use_module(library(lists)).
:- use_module(library(charsio)).
c44_pats(Ps, Rs) :-
    findall(R, ( member(p(F,V), Ps),
                 catch(( findall(F-V, current_prolog_flag(F,V), L), R = sols(L) ), error(E,_), R = err(E)) ), Rs).
c44_text("t(\"ab\", \"\", \"a\", f(\"\", \"b\"), [\"\", \"ab\"]). ").
c44_read(R) :- c44_text(Cs), catch(( read_term_from_chars(Cs, T, []), R = ok(T) ), error(E,_), R = err(E)).
"""

Q_OCCURS = "catch((\\+ \\+ (X = f(X)) -> R = succeeds ; R = fails), error(%s,_), true)." % ERRV
Q_UNKNOWN = "catch(c44_undefined_procedure, error(%s,_), true)." % ERRV
Q_READ = "c44_read(R)."


def anon(t):
    if t[0] == 'v':
        return ('v', '_')
    if t[0] == 'c':
        return ('c', t[1], tuple(anon(x) for x in t[2]))
    return t


def ctext(t):
    return terms.text(anon(t))


def list_items(t):
    out = []
    while t[0] == 'c' and t[1] == '.' and len(t[2]) == 2:
        out.append(t[2][0])
        t = t[2][1]
    return out


def binding(out, var):
    if "panic" in out:
        return ("panic", out["panic"])
    a = out.get("a", [])
    if not a:
        return ("other", "no answer")
    a0 = a[0]
    if a0 == "F":
        return ("fail",)
    if a0 == "T":
        return ("nobind",)
    if isinstance(a0, dict):
        if "b" in a0:
            if ERRV in a0["b"]:
                return ("err", ctext(terms.from_h(a0["b"][ERRV])))
            if var in a0["b"]:
                return ("val", terms.from_h(a0["b"][var]))
            return ("nobind",)
        if "e" in a0:
            return ("err", "uncaught " + ctext(terms.from_h(a0["e"])))
        if "x" in a0:
            return ("err", "ball " + ctext(terms.from_h(a0["x"])))
    return ("other", a0)


def outcome(out):
    r = binding(out, None)
    if r[0] == "nobind":
        return "success"
    if r[0] == "err":
        return r[1]
    if r[0] == "fail":
        return "failure"
    if r[0] == "panic":
        return "panic " + r[1]
    return "other %r" % (r[1:],)


def q_set(act):
    return "catch(set_prolog_flag(%s),error(%s,_),true)." % (act, ERRV)


def q_pats(pats):
    items = []
    for i, p in enumerate(pats):
        f = "F%d" % i if p["f"] == "F" else p["f"]
        v = "V%d" % i if p["v"] == "V" else p["v"]
        items.append("p(%s,%s)" % (f, v))
    return "catch(c44_pats([%s],Rs),error(%s,_),true)." % (",".join(items), ERRV)


class Plan:
    def __init__(self, jid):
        self.job = {"id": jid, "fresh": True, "timeout": 180, "steps": [{"consult": HELPERS}]}
        self.plan = [("consult",)]

    def add(self, q, tag):
        self.job["steps"].append({"q": q, "max": 1})
        self.plan.append(tag)
        return len(self.plan) - 1


def add_obs(pl, st, tag):
    return {"pats": pl.add(q_pats(st["pats"]), ("pats", tag)), "read": pl.add(Q_READ, ("read", tag)),
            "occurs": pl.add(Q_OCCURS, ("occurs", tag)), "unknown": pl.add(Q_UNKNOWN, ("unknown", tag))}


def key_txt(key):
    return "/".join(key)


def check_obs(rep, st, outs, idx, ctx, detail):
    """compare everything observable in the flag state st (a 'st' vector)"""
    k = key_txt(st["key"])
    r = binding(outs[idx["pats"]], "Rs")
    if r[0] != "val":
        rep.violation("current read-back %s state=%s: %r" % (ctx, k, r), detail)
    else:
        got = list_items(r[1])
        if len(got) != len(st["pats"]):
            rep.violation("current read-back %s state=%s: %d answers for %d patterns" % (ctx, k, len(got), len(st["pats"])), detail)
        else:
            for p, g in zip(st["pats"], got):
                rep.evaluations += 1
                if p["errs"]:
                    exp = "one of errors[%s]" % ",".join(sorted(p["errs"]))
                    ok = g[0] == 'c' and g[1] == 'err' and ctext(g[2][0]) in p["errs"]
                else:
                    exp = "sols[%s]" % ",".join(sorted(p["sols"]))
                    ok = g[0] == 'c' and g[1] == 'sols' and sorted(ctext(x) for x in list_items(g[2][0])) == sorted(p["sols"])
                if not ok:
                    if g[0] == 'c' and g[1] == 'sols':
                        gt = "sols[%s]" % ",".join(sorted(ctext(x) for x in list_items(g[2][0])))
                    else:
                        gt = ctext(g)
                    rep.violation("current f=%s v=%s state=%s expected=%s got=%s" % (p["f"], p["v"], k, exp, gt),
                                  dict(detail, pattern=[p["f"], p["v"]], expected=exp, got=gt))
    # effects
    rep.evaluations += 3
    r = binding(outs[idx["read"]], "R")
    gt = ctext(r[1]) if r[0] == "val" else repr(r)
    if gt != "'ok'(%s)" % st["read"]:
        rep.violation("effect double_quotes state=%s expected=%s got=%s" % (k, st["read"], gt), detail)
    o = outs[idx["occurs"]]
    r = binding(o, "R")
    gt = r[1][1] if (r[0] == "val" and r[1][0] == 'a') else ("error" if r[0] == "err" else repr(r))
    if gt != st["occurs"]:
        rep.violation("effect occurs_check state=%s expected=%s got=%s" % (k, st["occurs"], r[1] if r[0] == "err" else gt), detail)
    gt = outcome(outs[idx["unknown"]])
    if gt != st["unknown"]:
        rep.violation("effect unknown state=%s expected=%s got=%s" % (k, st["unknown"], gt), detail)


def act_class(v):
    f, _, val = v["act"].partition(",")
    kind = "success" if v["out"] == ["success"] else "|".join(sorted(o.split("(")[0] for o in v["out"]))
    return (f, val, kind, v["key"] != v["next"])


def load_vectors(res):
    init, states, trs, walks = None, {}, [], []
    for v in res.printed():
        k = v.get("kind")
        if k == "init":
            init = v
        elif k == "st":
            states[tuple(v["key"])] = v
        elif k == "tr":
            trs.append(v["v"])
        elif k == "walk":
            walks.append(v["steps"])
    trs.sort(key=lambda v: (v["key"], v["act"]))
    return init, states, trs, walks


def build_chunk(jid, states, chunk):
    pl = Plan(jid)
    for ti, v in enumerate(chunk):
        st = states[tuple(v["key"])]
        v["_reach"] = [pl.add(q_set(a), ("reach", ti)) for a in st["reach"]]
        v["_op"] = pl.add(q_set(v["act"]), ("op", ti))
        v["_obs"] = add_obs(pl, states[tuple(v["next"])], ti)
    return pl


def eval_chunk(rep, pl, states, chunk, result):
    if "crash" in result:
        rep.violation("crash in a chunk starting with act=%s state=%s: %s" % (chunk[0]["act"], key_txt(chunk[0]["key"]), result["crash"]),
                      {"vectors": [{k: x for k, x in v.items() if not k.startswith("_")} for v in chunk[:3]], "result": result})
        return 0
    outs = result["res"]
    n = 0
    for v in chunk:
        st = states[tuple(v["key"])]
        detail = {"vector": {k: x for k, x in v.items() if not k.startswith("_")}, "reach": st["reach"]}
        bad = [(a, outcome(outs[i])) for a, i in zip(st["reach"], v["_reach"]) if outcome(outs[i]) != "success"]
        if bad:
            rep.violation("set act=%s state=(reaching %s) expected=[success] got=%s" % (bad[0][0], key_txt(v["key"]), bad[0][1]), detail)
            continue
        rep.case(act_class(v))
        n += 1
        got = outcome(outs[v["_op"]])
        if got not in v["out"]:
            rep.violation("set act=%s state=%s expected=[%s] got=%s" % (v["act"], key_txt(v["key"]), ",".join(v["out"]), got),
                          dict(detail, expected=v["out"], got=got))
        check_obs(rep, states[tuple(v["next"])], outs, v["_obs"], "after act=%s" % v["act"], detail)
    return n


def build_walk(jid, states, steps):
    pl = Plan(jid)
    for si, v in enumerate(steps):
        v["_op"] = pl.add(q_set(v["act"]), ("op", si))
        v["_obs"] = add_obs(pl, states[tuple(v["next"])], si)
    return pl


def eval_walk(rep, pl, states, steps, result):
    if "crash" in result:
        rep.violation("crash walk: %s" % result["crash"], {"walk": [s["act"] for s in steps], "result": result})
        return 0
    outs = result["res"]
    for si, v in enumerate(steps):
        detail = {"walk": [{k: x for k, x in s.items() if not k.startswith("_")} for s in steps[:si + 1]]}
        rep.case(act_class(v))
        got = outcome(outs[v["_op"]])
        if got not in v["out"]:
            rep.violation("set act=%s state=%s expected=[%s] got=%s" % (v["act"], key_txt(v["key"]), ",".join(v["out"]), got),
                          dict(detail, expected=v["out"], got=got))
        check_obs(rep, states[tuple(v["next"])], outs, v["_obs"], "walk step %d act=%s" % (si, v["act"]), detail)
    return len(steps)


def run(tier):
    rep = Report(PROP, tier, META["level"])
    rep.rule = ("TLC explores the complete graph of flag states and applies every call of the universe in every state; each "
                "transition is replayed (reach the state with set_prolog_flag/2, the call, full read-back in all modes, three "
                "effect probes); thorough adds random histories. distinct = (flag argument, value argument, admissible outcome "
                "class, state changed)")
    res = tlc_ok(run_tlc("MC_C44", "MC_C44_%s.cfg" % tier, workers=8, timeout=1800), "C44 bfs")
    rep.add_tlc(res)
    init, states, trs, _ = load_vectors(res)
    if init is None or not states or not trs:
        raise common.ToolError("no vectors generated")
    if len(trs) != len(states) * init["nacts"]:
        raise common.ToolError("expected %d transitions, got %d" % (len(states) * init["nacts"], len(trs)))
    for v in trs:
        if tuple(v["key"]) not in states or tuple(v["next"]) not in states:
            raise common.ToolError("transition into an unexplored state: %r" % (v,))
    # the initial state of a fresh machine
    pl = Plan("init")
    idx = add_obs(pl, states[tuple(init["key"])], 0)
    r = run_jobs([pl.job], workers=1, job_timeout=120)["init"]
    if "crash" in r:
        raise common.ToolError("cannot run the initial read-back: %r" % (r,))
    rep.case(("init",))
    check_obs(rep, states[tuple(init["key"])], r["res"], idx, "initial", {"initial": True})
    chunks = [trs[c:c + CHUNK] for c in range(0, len(trs), CHUNK)]
    plans = [build_chunk("c%d" % i, states, ch) for i, ch in enumerate(chunks)]
    results = run_jobs([p.job for p in plans], workers=8, job_timeout=180)
    n = 0
    for p, ch in zip(plans, chunks):
        n += eval_chunk(rep, p, states, ch, results.get(p.job["id"], {"crash": "missing"}))
    rep.traces = n
    rep.extra["states_explored"] = len(states)
    rep.extra["transitions_replayed"] = n
    rep.extra["readback_patterns_per_state"] = init["npats"]
    if tier == "thorough":
        outs = common.simulate_parallel("MC_C44", "MC_C44_walk.cfg", procs=4, num=500, depth=9, timeout=1800)
        walks = []
        for o in outs:
            tlc_ok(o, "C44 walk")
            rep.add_tlc(o)
            walks += load_vectors(o)[3]
        if not walks:
            raise common.ToolError("no walks generated")
        plans = [build_walk("w%d" % i, states, w) for i, w in enumerate(walks)]
        results = run_jobs([p.job for p in plans], workers=8, job_timeout=180)
        steps = 0
        for p, w in zip(plans, walks):
            steps += eval_walk(rep, p, states, w, results.get(p.job["id"], {"crash": "missing"}))
        rep.extra["random_histories"] = len(walks)
        rep.extra["random_history_steps"] = steps
        rep.traces += len(walks)
    for v in trs[:: max(1, len(trs) // 4)]:
        rep.sample({"state": key_txt(v["key"]), "call": "set_prolog_flag(%s)" % v["act"], "admissible": v["out"], "next": key_txt(v["next"])})
    rep.exhaustive = True
    rep.assumptions = ["TLC and spec/Flags.tla (the property is checked on the specification in the same run: SetInv, EnumInv)",
                       "the harness answer projection and the canonical text renderer",
                       "a state is entered with set_prolog_flag/2 itself; a failing entry is reported as a violation of that call"]
    return rep.finish()


def replay(path):
    d = json.load(open(path))
    det = d["detail"]
    pl = Plan("replay")
    steps = det.get("walk") or ([det["vector"]] if "vector" in det else [])
    for a in det.get("reach", []):
        pl.add(q_set(a), ("reach",))
    for v in steps:
        pl.add(q_set(v["act"]), ("op",))
    if det.get("pattern"):
        pl.add(q_pats([{"f": det["pattern"][0], "v": det["pattern"][1]}]), ("pat",))
    pl.add("findall(F-V,current_prolog_flag(F,V),L).", ("all",))
    pl.add(Q_READ, ("read",))
    pl.add(Q_OCCURS, ("occurs",))
    pl.add(Q_UNKNOWN, ("unknown",))
    r = run_jobs([pl.job], workers=1, job_timeout=120)["replay"]
    print("signature:", d["signature"])
    for s, o in zip(pl.job["steps"][1:], r.get("res", [])[1:]):
        print(s["q"][:300])
        print("   ->", json.dumps(o)[:600])
    return 0
