"""C46 - clp(B) decides satisfiability and counts models exactly."""
import itertools
import json
from lib import common, terms
from lib.common import Report, run_jobs

PROP = "C46"

META = {
    "level": "model_checking",
    "text": "Clpb.tla gives the truth-table meaning of the Boolean expressions of library(clpb) (0, 1, variables, ~, *, +, #, "
            "=:=, =\\=, =<, >=, <, >, card/2, +(List), *(List)) and of sat/1, taut/2, sat_count/2 and labeling/1 with respect "
            "to a store of posted constraints and unifications. TLC enumerates all formulas of depth <= 1 over 0,1 and three "
            "variables, the depth-2 formulas over three variables (sampled in the quick tier, all 68 208 in the thorough tier), "
            "pseudo-random formulas of larger depth over up to 4 (quick) / 6 (thorough) variables and pseudo-random stores of "
            "1..3 sat/1 posts and unifications followed by a query formula, and prints for each case the model set, the taut "
            "verdict and the model count. Every case is replayed against the real library: sat/1 success, the multiset of "
            "answers of labeling/1 (before and after taut/sat_count), taut/2 (T unbound, T=1, T=0) and sat_count/2. "
            "Bounded-exhaustive / sampled conformance, not proof.",
    "note": "Trusted: TLC, the functional-notation term renderer, findall/3. Atoms (universally quantified parameters), V^E, "
            "weighted_maximum/3 and random_labeling/2 are outside the property's list of connectives and not modelled. "
            "The truth tables of the specification are cross-checked against an independent Python evaluator in every run.",
    "technique": "TLA+ truth-table semantics enumerated by TLC; vectors replayed into the real BDD-based solver",
}

SETUP = ":- use_module(library(clpb)).\n"
BATCH = 100
JOB_TIMEOUT = 600
SINGLE_TIMEOUT = 120


# ------------------------------------------------------------------------------------------
# rendering (functional notation: parses without the operator declarations of clpb)
# ------------------------------------------------------------------------------------------

def vname(i):
    return "V%d" % i


def ftext(f):
    k = f["k"]
    if k == "c":
        return str(int(f["i"]))
    if k == "v":
        return vname(f["i"])
    if k == "un":
        return "%s(%s)" % (terms.quote_atom(f["op"]), ftext(f["a"][0]))
    if k == "bin":
        return "%s(%s,%s)" % (terms.quote_atom(f["op"]), ftext(f["a"][0]), ftext(f["a"][1]))
    if k == "nary":
        return "%s([%s])" % (terms.quote_atom(f["op"]), ",".join(ftext(x) for x in f["a"]))
    if k == "card":
        is_ = ",".join(str(lo) if lo == hi else "'-'(%d,%d)" % (lo, hi) for lo, hi in f["is"])
        return "card([%s],[%s])" % (is_, ",".join(ftext(x) for x in f["a"]))
    raise ValueError(f)


def acttext(a):
    if a["t"] == "sat":
        return "sat(%s)" % ftext(a["f"])
    if a["t"] == "unify":
        return "%s = %s" % (vname(a["i"]), vname(a["j"]))
    if a["t"] == "bind":
        return "%s = %d" % (vname(a["i"]), a["j"])
    raise ValueError(a)


def query(v):
    vs = "[%s]" % ",".join(vname(i) for i in range(1, v["nv"] + 1))
    g = ftext(v["f"])
    if not v["acts"]:
        body = ("Vs = %s, findall(T, taut(%s, T), Ts), findall(N, sat_count(%s, N), Ns), "
                "findall(Vs, (sat(%s), labeling(Vs)), Ms), (\\+ sat(%s) -> S = 0 ; S = 1), "
                "findall(t, taut(%s, 1), T1), findall(t, taut(%s, 0), T0)" % (vs, g, g, g, g, g, g))
    else:
        acts = ", ".join(acttext(a) for a in v["acts"])
        body = ("Vs = %s, findall(r(Ms,Ts,Ns,T1,T0,Ms2), (%s, findall(Vs, labeling(Vs), Ms), findall(T, taut(%s, T), Ts), "
                "findall(N, sat_count(%s, N), Ns), findall(t, taut(%s, 1), T1), findall(t, taut(%s, 0), T0), "
                "findall(Vs, labeling(Vs), Ms2)), L)" % (vs, acts, g, g, g, g))
    return "catch((%s), error(E,_), true)." % body


# ------------------------------------------------------------------------------------------
# independent evaluator: sanity of the specification's truth tables (mismatch = tool error)
# ------------------------------------------------------------------------------------------

def pyev(f, a):
    k = f["k"]
    if k == "c":
        return int(f["i"])
    if k == "v":
        return a[f["i"] - 1]
    xs = [pyev(x, a) for x in f["a"]]
    if k == "un":
        return 1 - xs[0]
    if k == "bin":
        x, y = xs
        return int({"*": x & y, "+": x | y, "#": x ^ y, "=:=": x == y, "=\\=": x != y, "=<": x <= y, ">=": x >= y,
                    "<": x < y, ">": x > y}[f["op"]])
    if k == "nary":
        return int(any(xs)) if f["op"] == "+" else int(all(xs))
    if k == "card":
        n = sum(xs)
        return int(any(lo <= n <= hi for lo, hi in f["is"]))
    raise ValueError(f)


def pyvars(f, acc=None):
    acc = set() if acc is None else acc
    if f["k"] == "v":
        acc.add(f["i"])
    for x in f.get("a", []):
        pyvars(x, acc)
    return acc


def pycheck(v):
    nv = v["nv"]
    allas = list(itertools.product((0, 1), repeat=nv))

    def actok(act, a):
        if act["t"] == "sat":
            return pyev(act["f"], a) == 1
        if act["t"] == "unify":
            return a[act["i"] - 1] == a[act["j"] - 1]
        return a[act["i"] - 1] == act["j"]
    store = [a for a in allas if all(actok(act, a) for act in v["acts"])]
    gm = [a for a in store if pyev(v["f"], a) == 1]
    models = gm if not v["acts"] else store
    vs = sorted(pyvars(v["f"]))
    count = len(set(tuple(a[i - 1] for i in vs) for a in gm))
    taut = -2 if not store else (0 if not gm else (1 if len(gm) == len(store) else -1))
    mine = (sorted(models), count, taut, bool(models))
    spec = (sorted(tuple(m) for m in v["models"]), v["count"], v["taut"], v["sat"])
    if mine != spec:
        raise common.ToolError("specification self-check failed on %s: python=%r spec=%r" % (query(v), mine, spec))


# ------------------------------------------------------------------------------------------

def pylist(t):
    """canonical list term -> python list (None if not a proper list)"""
    out = []
    while t[0] == 'c' and t[1] == '.' and len(t[2]) == 2:
        out.append(t[2][0])
        t = t[2][1]
    return out if t == terms.NIL else None


def ints(t):
    xs = pylist(t)
    if xs is None or any(x[0] != 'i' for x in xs):
        return None
    return [x[1] for x in xs]


def models_of(t):
    xs = pylist(t)
    if xs is None:
        return None
    out = []
    for x in xs:
        m = ints(x)
        if m is None:
            return None
        out.append(tuple(m))
    return sorted(out)


def expected(v):
    ms = sorted(tuple(m) for m in v["models"])
    ts = [] if v["taut"] == -1 else [v["taut"]]
    return {"models": ms, "Ts": ts, "Ns": [v["count"]], "T1": 1 if v["taut"] == 1 else 0,
            "T0": 1 if v["taut"] == 0 else 0, "sat": v["sat"]}


def observe(v, out):
    """project a harness result to the same shape as expected(); returns (dict or None, raw description)"""
    if "panic" in out:
        return None, "panic: %s" % out["panic"]
    a = out.get("a")
    if not a or len(a) != 1 or not isinstance(a[0], dict) or "b" not in a[0]:
        return None, "answers: %s" % json.dumps(a)[:300]
    b = {k: terms.from_h(x) for k, x in a[0]["b"].items()}
    if "E" in b and b["E"][0] != 'v':
        return None, "error: %s" % terms.text(b["E"])
    try:
        if not v["acts"]:
            return {"models": models_of(b["Ms"]), "Ts": ints(b["Ts"]), "Ns": ints(b["Ns"]),
                    "T1": len(pylist(b["T1"])), "T0": len(pylist(b["T0"])),
                    "sat": b["S"] == ('i', 1)}, None
        ls = pylist(b["L"])
        if ls == []:
            return {"models": [], "Ts": [-2], "Ns": [0], "T1": 0, "T0": 0, "sat": False}, None
        if len(ls) != 1:
            return None, "store goals succeeded %d times" % len(ls)
        r = ls[0][2]
        got = {"models": models_of(r[0]), "Ts": ints(r[1]), "Ns": ints(r[2]), "T1": len(pylist(r[3])),
               "T0": len(pylist(r[4])), "sat": True}
        ms2 = models_of(r[5])
        if ms2 != got["models"]:
            got["models_after_taut_count"] = ms2
        return got, None
    except Exception as e:  # malformed answer: data, reported as a mismatch
        return None, "unexpected answer shape (%s): %s" % (e, json.dumps(a)[:300])


def cover_class(v):
    return (v["kind"], v["nv"], min(v["depth"], 3), tuple(sorted(v["ops"])), v["taut"], len(v["acts"]),
            tuple(sorted(set(a["t"] for a in v["acts"]))))


def run_vectors(vecs, workers=8):
    jobs = []
    for bi in range(0, len(vecs), BATCH):
        steps = [{"consult": SETUP}] + [{"q": query(v), "max": 2} for v in vecs[bi:bi + BATCH]]
        jobs.append({"id": bi, "steps": steps, "timeout": JOB_TIMEOUT})
    return jobs, run_jobs(jobs, workers=workers, job_timeout=JOB_TIMEOUT)


def judge(rep, vecs, jobs, results):
    for job in jobs:
        bi = job["id"]
        batch = vecs[bi:bi + BATCH]
        r = results.get(bi, {"crash": "missing"})
        if "crash" in r:
            # isolate: re-run every case of the batch in its own machine; a case that alone stalls for SINGLE_TIMEOUT
            # (>> 20x the normal few milliseconds) or kills the worker is a finding, anything else was collateral
            singles = [{"id": j, "steps": [{"consult": SETUP}, {"q": query(v), "max": 2}], "timeout": SINGLE_TIMEOUT}
                       for j, v in enumerate(batch)]
            sres = run_jobs(singles, workers=8, job_timeout=SINGLE_TIMEOUT)
            rs = []
            for j, v in enumerate(batch):
                x = sres.get(j, {"crash": "missing"})
                rs.append({"panic": "worker %s" % x["crash"]} if "crash" in x else x["res"][1])
        else:
            rs = r["res"][1:]
        for v, out in zip(batch, rs):
            rep.case(cover_class(v))
            exp = expected(v)
            if v["acts"] and not v["sat"]:
                exp = {"models": [], "Ts": [-2], "Ns": [0], "T1": 0, "T0": 0, "sat": False}
            got, why = observe(v, out)
            if got != exp:
                diff = why or ",".join(sorted(k for k in set(exp) | set(got) if exp.get(k) != got.get(k)))
                sig = "%s store=[%s] f=%s differs=%s" % (v["kind"], ", ".join(acttext(a) for a in v["acts"]),
                                                          ftext(v["f"]), diff)
                rep.violation(sig, {"vector": v, "query": query(v), "expected": exp, "got": got if got else why})


def run(tier):
    rep = Report(PROP, tier, "model_checking")
    rep.rule = ("TLC enumerates (a) all formulas of depth <= 1 over {0,1,V1,V2,V3} and the depth-2 formulas op(A,B), ~A with A,B "
                "of depth <= 1 over {V1,V2,V3} (quick: 1/23 of them chosen by an index hash salted with the seed; thorough: all), "
                "(b) pseudo-random formulas with card/2, +(List), *(List) and constants, (c) pseudo-random stores of 1..3 "
                "posts/unifications with a query formula; one case = one vector with model set, taut verdict, count. "
                "distinct = distinct (family, #variables, depth, set of connectives, taut verdict, store shape)")
    res, vecs = common.generate("MC_C46", "MC_C46_%s.cfg" % tier, workers=8 if tier == "quick" else 12,
                                timeout=3600, env_extra={"VERIF_SEED": common.seed()})
    rep.add_tlc(res)
    if not vecs:
        raise common.ToolError("no vectors generated")
    for v in vecs:
        pycheck(v)
    jobs, results = run_vectors(vecs, workers=8 if tier == "quick" else 12)
    judge(rep, vecs, jobs, results)
    for v in vecs[:: max(1, len(vecs) // 5)]:
        rep.sample({"query": query(v), "expected": expected(v)})
    rep.traces = len(vecs)
    nexh = sum(1 for v in vecs if v["kind"] == "exh")
    rep.extra["families"] = {"exh": nexh, "single": sum(1 for v in vecs if v["kind"] == "single"),
                             "store": sum(1 for v in vecs if v["kind"] == "store")}
    rep.exhaustive = False   # the random families are samples; the depth<=2 family is complete only in the thorough tier
    rep.assumptions = ["TLC and Clpb.tla (sanity invariants checked in the same run; truth tables cross-checked with Python)",
                       "functional-notation renderer, findall/3 and the LeafAnswer projection of the harness",
                       "atoms (universally quantified), V^E, weighted_maximum/3, random_labeling/2 not covered"]
    return rep.finish()


def replay(path):
    d = json.load(open(path))
    det = d["detail"]
    vecs = [det["vector"]] if "vector" in det else det["vectors"]
    jobs, results = run_vectors(vecs, workers=1)
    for v, out in zip(vecs, results[0].get("res", [None])[1:] if "res" in results[0] else []):
        got, why = observe(v, out)
        print(json.dumps({"query": query(v), "expected": expected(v), "got": got if got else why}, default=str)[:4000])
    if "crash" in results[0]:
        print(json.dumps(results[0]))
    return 0
