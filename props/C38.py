"""C38 - Delimited control and tabling compute the specified answers."""
import json
import os
from lib import common, terms
from lib.common import Report, run_jobs, generate
from lib.prolog_replay import Prog, clause_text

PROP = "C38"
META = {
    "level": "model_checking",
    "text": "Tabling (spec/Tabling.tla): the answers of a tabled call are the members of the least fixpoint of the program's "
            "immediate-consequence operator that match the call, computed in TLA+ by iteration over finite sets for left-, right- and "
            "double-recursive path/2 and for mutually recursive even/odd reachability; TLC enumerates every digraph on 3 nodes "
            "(thorough: plus a seeded sample of 1/97 of the digraphs on 4 nodes) x definition x 6 call patterns (path(X,Y), path(a,Y), "
            "path(X,a), path(a,b), path(X,X), path(c,c)) in two call orders, checks sanity theorems (all three fixpoints = union of "
            "the powers of the edge relation; parity closure) and, on acyclic graphs, that the untabled program run on the abstract "
            "machine yields the same answer set; each case is replayed with fresh predicate names under a per-query watchdog "
            "(non-termination is a violation) and compared as a set, duplicates reported. Delimited control (spec/Delim.tla): the "
            "abstract machine (spec/Prolog.tla, unmodified) is extended with reset/3, shift/1 and continuation calls (continuation = "
            "goal-stack segment up to the nearest reset frame, Cont = none without shift); TLC runs a template family (yield-style "
            "iterators with a take-k driver, a state effect handler, nested resets, shift under call/1, disjunction, if-then-else and "
            "catch/3, multi-shot and dropped continuations, exceptions crossing resets) with machine invariants checked at every step; "
            "answers, ball and the log are replayed and compared.",
    "note": "Trusted: TLC; spec/Tabling.tla, spec/Delim.tla and spec/Prolog.tla; the renderer; log/1 realised as assertz(logged(T)); "
            "the correspondence between the definition names of Tabling.tla and the program texts of this driver. Not specified and "
            "not emitted: shift/1 without an enclosing reset/3, continuations that still contain a cut or the commit of a construct "
            "whose condition shifted, shift inside findall/3; continuations themselves are never compared (representation is free). "
            "What an exception raised inside the resumed remainder of a catch/3 goal does is not specified and not generated.",
    "technique": "TLA+ fixpoint specification and abstract machine with delimited control explored by TLC; behaviours replayed into "
                 "library(tabling) and library(cont) (spec -> impl)",
}

TAB_TMO_MS = 20000
DL_TMO_MS = 10000
MAXANS = 8

# ----------------------------------------------------------------------------------------------
# tabling
# ----------------------------------------------------------------------------------------------
TAB_HELPERS = ":- use_module(library(tabling)).\n"

TAB_PROGRAMS = {   # the programs named in spec/Tabling.tla; P path, E edge, EV even, OD odd
    "left":   ":- table P/2.\nP(X,Y) :- P(X,Z), E(Z,Y).\nP(X,Y) :- E(X,Y).\n",
    "right":  ":- table P/2.\nP(X,Y) :- E(X,Y).\nP(X,Y) :- E(X,Z), P(Z,Y).\n",
    "double": ":- table P/2.\nP(X,Y) :- E(X,Y).\nP(X,Y) :- P(X,Z), P(Z,Y).\n",
    "mright": ":- table EV/2, OD/2.\nEV(X,Y) :- E(X,Z), OD(Z,Y).\nOD(X,Y) :- E(X,Y).\nOD(X,Y) :- E(X,Z), EV(Z,Y).\n",
    "mleft":  ":- table EV/2, OD/2.\nEV(X,Y) :- OD(X,Z), E(Z,Y).\nOD(X,Y) :- E(X,Y).\nOD(X,Y) :- EV(X,Z), E(Z,Y).\n",
}
MODE_ARGS = {"xy": ("X", "Y"), "ay": ("a", "Y"), "xa": ("X", "a"), "ab": ("a", "b"), "cc": ("c", "c"), "xx": ("X", "X")}


class TabCase:
    def __init__(self, vec, uid):
        self.vec = vec
        names = {"P": "path_%s" % uid, "E": "edge_%s" % uid, "EV": "even_%s" % uid, "OD": "odd_%s" % uid}
        self.names = names
        body = TAB_PROGRAMS[vec["kind"]]
        for k in ("EV", "OD", "P", "E"):
            body = body.replace(k + "(", names[k] + "(").replace(k + "/", names[k] + "/")
        facts = "".join("%s(%s,%s).\n" % (names["E"], x, y) for x, y in sorted(map(tuple, vec["edges"])))
        self.text = ":- dynamic(%s/2).\n" % names["E"] + body + facts
        self.queries = []
        for c in vec["calls"]:
            ax, ay = MODE_ARGS[c["mode"]]
            pred = {"path": names["P"], "even": names["EV"], "odd": names["OD"]}[c["pred"]]
            self.queries.append("findall(%s-%s, %s(%s,%s), L)." % (ax, ay, pred, ax, ay))

    def edges_text(self):
        return "{" + ",".join("%s-%s" % (x, y) for x, y in sorted(map(tuple, self.vec["edges"]))) + "}"

    def check(self, ci, res):
        """None or (tag, description) for call number ci"""
        c = self.vec["calls"][ci]
        if res.get("tmo"):
            return ("non-termination", "no answer within %d ms" % TAB_TMO_MS)
        if "panic" in res:
            return ("panic", res["panic"])
        a = res.get("a", [])
        if len(a) < 1 or not (isinstance(a[0], dict) and "b" in a[0] and "L" in a[0]["b"]):
            return ("outcome", "findall/3 did not succeed: %s" % str(a)[:200])
        lst = terms.from_h(a[0]["b"]["L"])
        got = []
        while lst[0] == 'c' and lst[1] == '.':
            it = lst[2][0]
            if not (it[0] == 'c' and it[1] == '-' and it[2][0][0] == 'a' and it[2][1][0] == 'a'):
                return ("answers", "non-ground or malformed answer %s" % terms.show(it))
            got.append((it[2][0][1], it[2][1][1]))
            lst = lst[2][1]
        exp = set(map(tuple, c["ans"]))
        if set(got) != exp:
            return ("answers", "expected %s got %s" % (sorted(exp), got))
        if len(got) != len(set(got)):
            return ("duplicates", "answer set %s returned with duplicates: %s" % (sorted(exp), got))
        return None

    def signature(self, ci, tag, d):
        c = self.vec["calls"][ci]
        order = ",".join("%s:%s" % (x["pred"], x["mode"]) for x in self.vec["calls"][:ci + 1])
        return "tabling %s kind=%s n=%d edges=%s call=%s:%s after=[%s]: %s" % (
            tag, self.vec["kind"], self.vec["n"], self.edges_text(), c["pred"], c["mode"], order, d)

    def cls(self, ci):
        c = self.vec["calls"][ci]
        return "tab|%s|n%d|%s:%s|pos%d|e%d|ans%d|%s" % (self.vec["kind"], self.vec["n"], c["pred"], c["mode"], ci,
                                                        len(self.vec["edges"]), len(c["ans"]), "dag" if self.vec["acyclic"] else "cyc")


def replay_tab(rep, vecs, workers, uid0=0):
    cases = [TabCase(v, "%d" % (uid0 + i)) for i, v in enumerate(vecs)]
    jobs, index = [], {}
    B = 12
    for bi in range(0, len(cases), B):
        steps = [{"consult": TAB_HELPERS}]
        ix = []
        for cs in cases[bi:bi + B]:
            steps.append({"consult": cs.text})
            for ci, q in enumerate(cs.queries):
                ix.append((len(steps), cs, ci))
                steps.append({"q": q, "max": 2, "tmo_ms": TAB_TMO_MS})
        jid = "t%d" % bi
        jobs.append({"id": jid, "steps": steps, "timeout": 900, "fresh": True})
        index[jid] = ix
    results = run_jobs(jobs, workers=workers, job_timeout=900)
    redo = []
    for job in jobs:
        r = results.get(job["id"], {"crash": "missing"})
        ix = index[job["id"]]
        if "crash" in r:
            redo += sorted(set(cs for _, cs, _ in ix), key=lambda c: c.names["P"])
            continue
        poisoned = set()
        bad_machine = False
        for si, cs, ci in ix:
            out = r["res"][si]
            if bad_machine or cs in poisoned:
                poisoned.add(cs)
                continue
            rep.case(cs.cls(ci))
            d = cs.check(ci, out)
            if d:
                rep.violation(cs.signature(ci, *d), {"part": "tab", "vector": cs.vec, "call": ci, "diff": d[1]})
            if "panic" in out or out.get("tmo"):
                bad_machine = True          # the Machine was rebuilt: later programs of this job are gone
                poisoned.add(cs)            # and the remaining calls of this case have lost their tables
        redo += sorted(poisoned, key=lambda c: c.names["P"])
    # cases whose Machine was lost: run each alone; every call after a lost one is judged in a fresh run of the prefix
    if redo:
        sj = []
        for i, cs in enumerate(redo):
            steps = [{"consult": TAB_HELPERS}, {"consult": cs.text}] + [{"q": q, "max": 2, "tmo_ms": TAB_TMO_MS} for q in cs.queries]
            sj.append({"id": "r%d" % i, "steps": steps, "timeout": 300, "fresh": True})
        rs = run_jobs(sj, workers=workers, job_timeout=300)
        for i, cs in enumerate(redo):
            rr = rs.get("r%d" % i, {"crash": "missing"})
            if "crash" in rr:
                rep.case(cs.cls(0))
                rep.violation(cs.signature(0, "crash", "engine crashed or hung: %s" % rr["crash"]),
                              {"part": "tab", "vector": cs.vec, "call": 0, "diff": rr["crash"]})
                continue
            dead = False
            for ci in range(len(cs.queries)):
                out = rr["res"][2 + ci]
                if dead:
                    break                 # calls after a timeout in the same (now rebuilt) Machine are not judged
                rep.case(cs.cls(ci))
                d = cs.check(ci, out)
                if d:
                    rep.violation(cs.signature(ci, *d), {"part": "tab", "vector": cs.vec, "call": ci, "diff": d[1]})
                if "panic" in out or out.get("tmo"):
                    dead = True


# ----------------------------------------------------------------------------------------------
# delimited control
# ----------------------------------------------------------------------------------------------
DL_PRELUDE = ":- use_module(library(cont)).\n:- dynamic(logged/1).\nlog(T) :- assertz(logged(T)).\n"


def observable(name):
    """continuations (K..) and anonymous variables (_..) are not compared"""
    return not (name.startswith("K") or name.startswith("_"))


class DlCase(Prog):
    def __init__(self, vec):
        self.vec = vec
        self.mapping = {}
        self.inv = {}
        self.q = terms.from_tla(vec["q"])
        allv = [terms.from_tla(v)[1] for v in vec["qv"]]
        self.keep = [i for i, n in enumerate(allv) if observable(n)]
        self.qv = [allv[i] for i in self.keep]
        ans = terms.text(('c', 'ans', tuple(('v', n) for n in self.qv))) if self.qv else "ans"
        self.qtext = "%s, Ans_ = %s." % (terms.text(self.q), ans)

    def expected_answers(self):
        return [('c', 'ans', tuple(terms.from_tla(a[i]) for i in self.keep)) for a in self.vec["ans"]]

    def got_answer(self, a):
        if not (isinstance(a, dict) and "b" in a and "Ans_" in a["b"]):
            return None
        t = terms.from_h(a["b"]["Ans_"])
        return ('c', 'ans', ()) if t == ('a', 'ans') else t

    def check(self, qres, logres):
        if qres.get("tmo"):
            return "timeout: no result within %d ms (the specification terminates in %d steps)" % (DL_TMO_MS, self.vec["steps"])
        d = self.compare(qres, MAXANS)
        if d:
            return "outcome: " + d
        if self.vec["status"] == "capped":
            return None            # the log of a capped run depends on where the enumeration was stopped
        if "panic" in logres:
            return "log panic " + logres["panic"]
        try:
            got = terms.from_h(logres["a"][0]["b"]["L"])
        except Exception:
            return "log unreadable: %s" % str(logres)[:200]
        gl = []
        while got[0] == 'c' and got[1] == '.' and len(got[2]) == 2:
            gl.append(got[2][0])
            got = got[2][1]
        el = [terms.from_tla(t) for t in self.vec["out"]]
        if len(gl) != len(el) or not all(terms.variant(a, b) for a, b in zip(el, gl)):
            return "log: expected %s got %s" % ([terms.show(t) for t in el], [terms.show(t) for t in gl])
        return None

    def feats(self):
        fs = set()

        def walk(t):
            if t[0] == 'c':
                if t[1] in ("reset", "shift", "catch", "call", ";", "->", "throw", "run", "drop", "twice", "take", "run_state",
                            "ints", "fromto", "elems", "t"):
                    fs.add("%s/%d" % (t[1], len(t[2])))
                for x in t[2]:
                    walk(x)
            elif t[0] == 'a' and t[1] in ("incr", "fail"):
                fs.add(t[1])
        walk(self.q)
        return "dl|" + ",".join(sorted(fs)) + "|" + self.vec["status"]

    def signature(self, d):
        tag = "case"
        q = self.q
        if q[0] == 'c' and q[1] == 'catch' and q[2][0][0] == 'c' and q[2][0][1] == 'dropthrow' and shifted_catch(q[2][0][2][0]):
            # input class: an exception is raised after reset/3 returned from a goal that shifted out of a catch/3
            tag = "throw-after-reset-with-shifted-catch"
            if d.startswith("log: "):
                tag += " log-differs"
        return "delim %s query=%s: %s" % (tag, terms.text(self.q), d)


def shifted_catch(t):
    """does goal t contain catch(G,_,_) with a shift/1 inside G?"""
    def has_shift(x):
        return x[0] == 'c' and ((x[1] == 'shift' and len(x[2]) == 1) or any(has_shift(y) for y in x[2]))
    if t[0] != 'c':
        return False
    if t[1] == 'catch' and len(t[2]) == 3 and has_shift(t[2][0]):
        return True
    return any(shifted_catch(y) for y in t[2])


def dl_steps(cs):
    return [{"q": "retractall(logged(_)).", "max": 2},
            {"q": cs.qtext, "max": MAXANS + 1, "tmo_ms": DL_TMO_MS},
            {"q": "findall(T, logged(T), L).", "max": 2}]


def replay_dl(rep, vecs, workers):
    if not vecs:
        return
    drivers = DL_PRELUDE + "\n".join(clause_text(terms.from_tla(c["h"]), terms.from_tla(c["b"])) for c in vecs[0]["prog"]) + "\n"
    cases = [DlCase(v) for v in vecs]
    jobs, index = [], {}
    B = 60
    for bi in range(0, len(cases), B):
        steps = [{"consult": drivers}]
        ix = []
        for cs in cases[bi:bi + B]:
            ix.append((len(steps), cs))
            steps += dl_steps(cs)
        jid = "d%d" % bi
        jobs.append({"id": jid, "steps": steps, "timeout": 600, "fresh": True})
        index[jid] = ix
    results = run_jobs(jobs, workers=workers, job_timeout=600)
    redo = []
    for job in jobs:
        r = results.get(job["id"], {"crash": "missing"})
        ix = index[job["id"]]
        if "crash" in r:
            redo += [cs for _, cs in ix]
            continue
        if not r["res"][0].get("ok", False):
            raise common.ToolError("consult of the drivers failed: %s" % str(r["res"][0])[:300])
        poisoned = False
        for si, cs in ix:
            rs = r["res"][si:si + 3]
            if poisoned or any(("panic" in x or x.get("tmo")) for x in rs):
                poisoned = True
                redo.append(cs)
                continue
            rep.case(cs.feats())
            d = cs.check(rs[1], rs[2])
            if d:
                rep.violation(cs.signature(d), {"part": "dl", "vector": cs.vec, "diff": d, "query": cs.qtext})
    if redo:
        sj = [{"id": "s%d" % i, "fresh": True, "timeout": 60, "steps": [{"consult": drivers}] + dl_steps(cs)} for i, cs in enumerate(redo)]
        rs = run_jobs(sj, workers=workers, job_timeout=60)
        for i, cs in enumerate(redo):
            rr = rs.get("s%d" % i, {"crash": "missing"})
            rep.case(cs.feats())
            if "crash" in rr:
                d = "crash(%s) (non-termination or abort of the engine)" % rr["crash"]
            else:
                d = cs.check(rr["res"][2], rr["res"][3])
            if d:
                rep.violation(cs.signature(d), {"part": "dl", "vector": cs.vec, "diff": d, "query": cs.qtext})


def run(tier):
    rep = Report(PROP, tier, META["level"])
    quick = tier == "quick"
    workers = 8 if quick else 14
    try:
        cap = int(os.environ.get("VERIF_MAX_WORKERS", "0"))      # development on a shared box
    except ValueError:
        cap = 0
    if cap > 0:
        workers = min(workers, cap)
    rep.rule = ("tabling: digraphs on 3 nodes (quick: all 512 for the left-recursive definition, and those with <= 2 or >= 8 edges "
                "for right/double/mutual recursion and for the second call order; thorough: all 512 x 5 definitions x 2 call orders + "
                "1/97 of the digraphs on 4 nodes x 5 definitions) x 6 call patterns run in sequence on one set of tables; delimited "
                "control: 3 generic drivers x bodies of <= 2 items from 16 items (3 items over a reduced alphabet), take-k x generator "
                "compositions, state handler x command sequences, nested state handlers, exceptions through and after resets. "
                "distinct = definition x call pattern x position x sizes, resp. set of constructs x outcome")
    res, vecs = generate("MC_C38", "MC_C38_%s.cfg" % tier, workers=workers, timeout=6000, env_extra={"C38_SEED": str(common.seed())})
    rep.add_tlc(res)
    tab = [v for v in vecs if v["part"] == "tab"]
    dl = [v for v in vecs if v["part"] == "dl"]
    if not tab or not dl:
        raise common.ToolError("no vectors")
    replay_dl(rep, dl, workers)
    replay_tab(rep, tab, workers)
    for v in dl[:: max(1, len(dl) // 3)][:3]:
        cs = DlCase(v)
        rep.sample({"query": cs.qtext, "expected_answers": [terms.show(a) for a in cs.expected_answers()],
                    "expected_log": [terms.show(terms.from_tla(t)) for t in v["out"]], "status": v["status"]})
    for v in tab[:: max(1, len(tab) // 2)][:2]:
        cs = TabCase(v, "0")
        rep.sample({"program": cs.text, "queries": cs.queries, "expected_sets": [c["ans"] for c in v["calls"]]})
    rep.traces = len(dl) + sum(len(v["calls"]) for v in tab)
    rep.exhaustive = quick       # thorough adds a seeded *sample* of the digraphs on 4 nodes
    rep.extra["exhaustive_part"] = "every digraph on 3 nodes in the stated classes and every program of the template family was enumerated and replayed"
    rep.extra["tabled_programs"] = len(tab)
    rep.extra["delimited_control_programs"] = len(dl)
    rep.assumptions = ["TLC", "spec/Tabling.tla (least fixpoint = SLG answers)", "spec/Delim.tla + spec/Prolog.tla",
                       "canonical renderer, LeafAnswer projection", "log/1 as assertz(logged(T))"]
    return rep.finish()


def replay(path):
    d = json.load(open(path))["detail"]
    v = d["vector"]
    if d["part"] == "tab":
        cs = TabCase(v, "0")
        steps = [{"consult": TAB_HELPERS}, {"consult": cs.text}] + [{"q": q, "max": 2, "tmo_ms": TAB_TMO_MS} for q in cs.queries]
        r = run_jobs([{"id": 0, "fresh": True, "timeout": 300, "steps": steps}], workers=1, job_timeout=300)
        print(cs.text)
        bad = 0
        if "res" not in r[0]:
            print(r[0])
            return 1
        for ci, q in enumerate(cs.queries):
            out = r[0]["res"][2 + ci]
            dd = cs.check(ci, out)
            print(q, "expected", v["calls"][ci]["ans"], "->", "ok" if dd is None else dd)
            bad += dd is not None
            if "panic" in out or out.get("tmo"):
                break
        return 1 if bad else 0
    cs = DlCase(v)
    drivers = DL_PRELUDE + "\n".join(clause_text(terms.from_tla(c["h"]), terms.from_tla(c["b"])) for c in v["prog"]) + "\n"
    r = run_jobs([{"id": 0, "fresh": True, "timeout": 60, "steps": [{"consult": drivers}] + dl_steps(cs)}], workers=1, job_timeout=60)
    print(cs.qtext)
    print("expected:", [terms.show(a) for a in cs.expected_answers()], v["status"], "log", [terms.show(terms.from_tla(t)) for t in v["out"]])
    print(json.dumps(r[0], indent=1)[:3000])
    if "res" in r[0]:
        dd = cs.check(r[0]["res"][2], r[0]["res"][3])
        print("diff:", dd)
        return 1 if dd else 0
    return 1
