"""C39 - DCG translation preserves grammar semantics."""
import json
import os
from lib import common, terms
from lib.common import Report, run_jobs, generate
from lib.prolog_replay import Prog, unrename_term

PROP = "C39"
META = {
    "level": "model_checking",
    "text": "spec/Dcg.tla extends the abstract machine (spec/Prolog.tla, unmodified) with a goal form '$dcg'(Body, S0, S) that "
            "*executes* grammar bodies directly (terminal lists/strings, non-terminals, sequence with a threaded intermediate list, "
            "alternatives | and ;, if-then-else, {}//1, ! cutting the rule, call//N, phrase//1, variable bodies, pushback) - there is no "
            "second translator in the specification; a rule is the clause Head+(S0,S) :- '$dcg'(Body,S0,S); phrase/2,3 run a body "
            "opaquely to cut. TLC enumerates grammars of 1-3 non-terminals from a body grammar (depth <= 2 plus selected depth 3 in "
            "quick, depth <= 3 in thorough) x all input lists over {a,b,c} up to length 3 (4) x partial lists (generation mode) x query "
            "forms (phrase/3, phrase/2, body held in a variable, phrase/3 with an outer choice point), checks the machine invariants at "
            "every step and prints the expected answer sequence (bindings and remainders, order and multiplicity) or ball; every case "
            "is replayed on the real system with the grammar consulted as real --> rules in operator syntax, with terminals and inputs "
            "written as lists and (thorough: every grammar, quick: every second grammar) again as double-quoted strings.",
    "note": "Trusted: TLC; spec/Prolog.tla + spec/Dcg.tla as the reading of the ISO DCG draft and of the dcgs.pl documentation; the "
            "renderer of this driver (operator syntax for grammar bodies, canonical text for arguments and {} goals). \\+//1 and "
            "if-then without else are specified as Scryer documents them (representation_error(dcg_body)) and only in bodies given to "
            "phrase/3 at run time (rules containing them are rejected at load time, which is not modelled). Behaviours that exceed the "
            "step bound or build cyclic terms in the spec are not emitted; with more than MaxAns answers only the first MaxAns are compared.",
    "technique": "TLA+ abstract machine with a direct DCG semantics explored by TLC; behaviours replayed into library(dcgs) (spec -> impl)",
}

HELPERS = ":- use_module(library(dcgs)).\nq(a).\nq(b).\n"
NTS = ("nt1", "nt2", "nt3")
MAXANS = 6
TMO_MS = 10000


# ---------------------------------------------------------------------------------------------
# renaming of non-terminals (unique names per consulted grammar) and rendering in operator syntax
# ---------------------------------------------------------------------------------------------

def rn_body(t, mp):
    k = t[0]
    if k == 'a':
        return ('a', mp.get(t[1], t[1]))
    if k != 'c':
        return t
    n, args = t[1], t[2]
    ar = len(args)
    if (n, ar) in ((',', 2), (';', 2), ('|', 2), ('->', 2), ('\\+', 1), ('phrase', 1)):
        return ('c', n, tuple(rn_body(x, mp) for x in args))
    if (n, ar) in (('.', 2), ('{}', 1)):
        return t
    if n == 'call' and ar >= 1:
        g = args[0]
        if g[0] == 'a':
            g = ('a', mp.get(g[1], g[1]))
        elif g[0] == 'c':
            g = ('c', mp.get(g[1], g[1]), g[2])
        return ('c', n, (g,) + tuple(args[1:]))
    return ('c', mp.get(n, n), args)


def rn_goal(t, mp):
    if t[0] == 'c':
        n, args = t[1], t[2]
        if (n, len(args)) in ((',', 2), (';', 2)):
            return ('c', n, tuple(rn_goal(x, mp) for x in args))
        if (n, len(args)) == ('=', 2):
            return ('c', n, (args[0], rn_body(args[1], mp)))
        if n == 'phrase' and len(args) in (2, 3):
            return ('c', n, (rn_body(args[0], mp),) + tuple(args[1:]))
    return t


def list_text(t, as_str):
    """a list term; complete non-empty lists of one-character atoms are written as "..." when as_str"""
    if as_str:
        items, cur = [], t
        while cur[0] == 'c' and cur[1] == '.' and len(cur[2]) == 2:
            items.append(cur[2][0])
            cur = cur[2][1]
        if cur == terms.NIL and items and all(x[0] == 'a' and len(x[1]) == 1 and x[1].isalnum() for x in items):
            return '"' + "".join(x[1] for x in items) + '"'
    return terms.text(t)


def body_text(t, s):
    k = t[0]
    if k == 'a':
        return t[1] if t[1] in ('[]', '!') else terms.text(t)
    if k != 'c':
        return terms.text(t)
    n, args = t[1], t[2]
    ar = len(args)
    if n == '.' and ar == 2:
        return list_text(t, s)
    if (n, ar) in ((',', 2), (';', 2), ('|', 2), ('->', 2)):
        return "(%s %s %s)" % (body_text(args[0], s), n, body_text(args[1], s))
    if (n, ar) == ('\\+', 1):
        return "\\+(%s)" % body_text(args[0], s)
    if (n, ar) == ('{}', 1):
        return "{ %s }" % terms.text(args[0])
    if (n, ar) == ('phrase', 1):
        return "phrase(%s)" % body_text(args[0], s)
    return terms.text(t)


def goal_text(t, s):
    if t[0] == 'c':
        n, args = t[1], t[2]
        if (n, len(args)) in ((',', 2), (';', 2)):
            return "(%s %s %s)" % (goal_text(args[0], s), n, goal_text(args[1], s))
        if (n, len(args)) == ('=', 2):
            return "%s = %s" % (terms.text(args[0]), body_text(args[1], s))
        if n == 'phrase' and len(args) in (2, 3):
            return "phrase(%s)" % ", ".join([body_text(args[0], s), list_text(args[1], s)] + [terms.text(x) for x in args[2:]])
    return terms.text(t)


def rule_text(r, mp, s):
    h = rn_body(terms.from_tla(r["h"]), mp)
    b = rn_body(terms.from_tla(r["b"]), mp)
    pb = [terms.from_tla(x) for x in r["pb"]]
    txt = terms.text(h)
    if pb:
        txt += ", " + list_text(terms.mk_list(pb), s)
    return txt + " --> " + body_text(b, s) + "."


def has_cut(t):
    """a cut in the control skeleton of a grammar body (transparent positions only)"""
    if t == ('a', '!'):
        return True
    if t[0] == 'c':
        n, args = t[1], t[2]
        if (n, len(args)) in ((',', 2), (';', 2), ('|', 2)):
            return any(has_cut(x) for x in args)
        if (n, len(args)) == ('->', 2):
            return has_cut(args[1])
        if (n, len(args)) == ('{}', 1):
            return has_cut(args[0])
    return False


def has_cond_cut(t):
    """a cut inside the condition of an if-then-else of the control skeleton (local to the condition)"""
    if t[0] == 'c':
        n, args = t[1], t[2]
        if (n, len(args)) == ('->', 2):
            return has_cut(args[0]) or has_cond_cut(args[0]) or has_cond_cut(args[1])
        if (n, len(args)) in ((',', 2), (';', 2), ('|', 2)):
            return any(has_cond_cut(x) for x in args)
    return False


def feats(t, acc):
    if t[0] == 'c':
        n, args = t[1], t[2]
        if n == '.' and len(args) == 2:
            acc.add("terminals")
            return acc
        if (n, len(args)) in ((',', 2), (';', 2), ('|', 2), ('->', 2), ('\\+', 1), ('{}', 1), ('phrase', 1)) or n == 'call':
            acc.add("%s//%d" % (n, len(args)))
            for x in args:
                feats(x, acc)
        else:
            acc.add("nt")
    elif t[0] == 'a':
        acc.add({'!': '!', '[]': '[]'}.get(t[1], "nt0"))
    elif t[0] == 'v':
        acc.add("var")
    return acc


class Case(Prog):
    """one vector (grammar, query, expectation) rendered for one terminal syntax"""

    def __init__(self, vec, uniq, as_str):
        self.vec = vec
        self.mapping = {}
        mp = {n: "%s_%s" % (n, uniq) for n in NTS}
        self.inv = {v: k for k, v in mp.items()}
        self.text = "\n".join(rule_text(r, mp, as_str) for r in vec["gram"]) + "\n"
        self.q = rn_goal(terms.from_tla(vec["q"]), mp)
        self.qv = [terms.from_tla(v)[1] for v in vec["qv"]]
        self.qtext = "%s, Ans_ = %s." % (goal_text(self.q, as_str), terms.text(('c', 'ans', tuple(('v', n) for n in self.qv)) if self.qv else ('a', 'ans')))
        self.as_str = as_str

    def got_answer(self, a):
        """harness answer -> canonical ('c','ans',...) tuple over self.qv.  The query ends in Ans_ = ans(V1,..,Vn): the
        LeafAnswer projection reports only one equation when three or more query variables are aliased to each other
        (`X = E1, X = E2.` is answered X = E2), so the bindings are read from one term that shows all sharing."""
        if not (isinstance(a, dict) and "b" in a and "Ans_" in a["b"]):
            return None
        t = unrename_term(terms.from_h(a["b"]["Ans_"]), self.inv)
        if t == ('a', 'ans'):
            return ('c', 'ans', ())
        return t

    def body(self):
        """the grammar body given to phrase in the query"""
        q = terms.from_tla(self.vec["q"])
        qk = self.vec["qk"]
        if qk in ("var", "ctxv"):
            return q[2][0][2][1]          # (G = Body, ...)
        if qk == "ctx":
            return q[2][0][2][0]          # (phrase(Body, ..) ; ..)
        return q[2][0]                    # phrase(Body, ..)

    def cls(self):
        fs = set()
        for r in self.vec["gram"]:
            feats(terms.from_tla(r["b"]), fs)
            if r["pb"]:
                fs.add("pushback")
        feats(self.body(), fs)
        return "%s|%s|%s|%s|%s" % (self.vec["kind"], self.vec["qk"], "str" if self.as_str else "list",
                                   ",".join(sorted(fs)), self.vec["status"])

    def signature(self, diff):
        v = self.vec
        tag = "case"
        if v["qk"] == "ctx" and has_cut(self.body()):
            tag = "ctx-literal-body-with-cut"
            if diff.startswith("expected") and "answers, got" in diff and self.prefix_ok:
                tag += " missing-trailing-answers"
        elif v["qk"] == "ctx" and has_cond_cut(self.body()):
            tag = "ctx-literal-body-with-cut-in-condition"
            if diff.startswith("expected") and "answers, got" in diff and self.prefix_ok:
                tag += " missing-trailing-answers"
        return "%s kind=%s qk=%s %s grammar={%s} query=%s: %s" % (
            tag, v["kind"], v["qk"], "str" if self.as_str else "list", self.text.strip().replace("\n", " "), self.qtext, diff)

    def check(self, res):
        if res.get("tmo"):
            return "timeout: no result within %d ms (the specification terminates in %d steps)" % (TMO_MS, self.vec["steps"])
        d = self.compare(res, MAXANS)
        self.prefix_ok = False
        if d and "a" in res:
            # is what we got a proper prefix of the expected answer sequence? (classification of the diff only)
            exp = self.expected_answers()
            got = []
            for a in res["a"]:
                g = self.got_answer(a)
                if g is None:
                    break
                got.append(g)
            self.prefix_ok = len(got) < len(exp) and all(terms.variant(e, g) for e, g in zip(exp, got))
        return d


def group_vectors(vecs):
    groups = {}
    for v in vecs:
        groups.setdefault(json.dumps(v["gram"], sort_keys=True), []).append(v)
    return [groups[k] for k in sorted(groups)]


def build_jobs(groups, batch=160, first_id=0, str_every=1):
    """jobs of ~batch queries; returns jobs and, per job, the list of (step index, Case) of its queries.
    Every grammar is replayed with list terminals; every str_every-th grammar also with double-quoted strings."""
    jobs, index = [], {}
    cur, cur_ix, nq = None, None, 0
    uid = 0
    for gi, grp in enumerate(groups):
        for as_str in ((False, True) if gi % str_every == 0 else (False,)):
            cases = []
            uid += 1
            for v in grp:
                cs = Case(v, "%d" % uid, as_str)
                cases.append(cs)
            if as_str:
                plain = [Case(v, "%d" % uid, False) for v in grp]
                keep = [c for c, p in zip(cases, plain) if c.text != p.text or c.qtext != p.qtext]
                cases = keep
            if not cases:
                continue
            if cur is None or nq >= batch:
                jid = first_id + len(jobs)
                cur = {"id": jid, "steps": [{"consult": HELPERS}], "timeout": 300, "fresh": True}
                cur_ix = index[jid] = []
                jobs.append(cur)
                nq = 0
            cur["steps"].append({"consult": cases[0].text})
            for cs in cases:
                cur_ix.append((len(cur["steps"]), cs))
                cur["steps"].append({"q": cs.qtext, "max": MAXANS + 1, "tmo_ms": TMO_MS})
                nq += 1
    return jobs, index


def single_job(cs, jid):
    return {"id": jid, "fresh": True, "timeout": 60,
            "steps": [{"consult": HELPERS}, {"consult": cs.text}, {"q": cs.qtext, "max": MAXANS + 1, "tmo_ms": TMO_MS}]}


def judge(rep, cs, res):
    rep.case(cs.cls())
    if "crash" in res:
        d = "crash(%s) (non-termination or abort of the engine)" % res["crash"]
        cs.prefix_ok = False
    else:
        d = cs.check(res)
    if d:
        rep.violation(cs.signature(d), {"vector": cs.vec, "as_str": cs.as_str, "diff": d, "grammar": cs.text, "query": cs.qtext})


def replay_vectors(rep, vecs, workers, str_every=1):
    groups = group_vectors(vecs)
    jobs, index = build_jobs(groups, str_every=str_every)
    results = run_jobs(jobs, workers=workers, job_timeout=300)
    redo = []
    for job in jobs:
        r = results.get(job["id"], {"crash": "missing"})
        ix = index[job["id"]]
        if "crash" in r:
            redo += [cs for _, cs in ix]
            continue
        if not r["res"][0].get("ok", False):
            raise common.ToolError("helper consult failed: %s" % str(r["res"][0])[:300])
        poisoned = False
        for si, cs in ix:
            out = r["res"][si]
            if poisoned:
                redo.append(cs)
                continue
            if "panic" in out or out.get("tmo"):
                poisoned = True      # the Machine is rebuilt after this step: judge it alone, and re-run the rest
                redo.append(cs)
                continue
            judge(rep, cs, out)
    if redo:
        sj = [single_job(cs, "s%d" % i) for i, cs in enumerate(redo)]
        rs = run_jobs(sj, workers=workers, job_timeout=60)
        for i, cs in enumerate(redo):
            rr = rs.get("s%d" % i, {"crash": "missing"})
            judge(rep, cs, rr if "crash" in rr else rr["res"][2])
    return len(groups)


def run(tier):
    rep = Report(PROP, tier, META["level"])
    quick = tier == "quick"
    rep.rule = ("every case of MC_C39: grammars = start symbol nt1//1 with one body of the body grammar (quick: 17 atoms, depth-2 bodies over "
                "8 atoms, selected depth-3 bodies; thorough: depth 2 over 17 atoms, depth 3 over 4-5 atoms) followed by a second rule, "
                "preceded by it when the body has a cut, (thorough) with a structured head, with pushback [b] / [X]; helper "
                "non-terminals nt2//1 in 2 (thorough 4) variants and recursive nt3//0 when mentioned; bodies given directly to phrase/3 "
                "(including the rejected \\+ and if-then forms). Inputs: all lists over {a,b,c} of length <= 3 (thorough: <= 4 for the "
                "depth<=2 basic bodies) and 6 partial lists, phrase/3 and phrase/2, bound first argument, body in a variable, phrase/3 "
                "under an outer choice point. Each case replayed with list terminals and (quick: every second grammar) with "
                "double-quoted strings. distinct = kind x query form x syntax x set of body constructs x outcome kind")
    workers = 8 if quick else 14
    try:
        cap = int(os.environ.get("VERIF_MAX_WORKERS", "0"))      # development on a shared box
    except ValueError:
        cap = 0
    if cap > 0:
        workers = min(workers, cap)
    nvec = 0
    ngram = 0
    chunks = [(0, 1)] if quick else [(k, 8) for k in range(8)]
    samples = []
    for (k, n) in chunks:
        res, vecs = generate("MC_C39", "MC_C39_%s.cfg" % tier, workers=workers, timeout=6000,
                             env_extra={"C39_CHUNK_K": str(k), "C39_CHUNK_N": str(n)}, tag="MC_C39-%s-%d" % (tier, k))
        rep.add_tlc(res)
        if not vecs:
            raise common.ToolError("no vectors in chunk %d/%d" % (k, n))
        nvec += len(vecs)
        ngram += replay_vectors(rep, vecs, workers, str_every=2 if quick else 1)
        samples += vecs[:: max(1, len(vecs) // 2)][:2]
        del vecs
    for v in samples[:5]:
        cs = Case(v, "0", False)
        rep.sample({"grammar": cs.text, "query": cs.qtext, "expected_answers": [terms.show(a) for a in cs.expected_answers()],
                    "status": v["status"]})
    rep.traces = nvec
    rep.exhaustive = True
    rep.extra["grammars"] = ngram
    rep.assumptions = ["TLC", "spec/Prolog.tla and spec/Dcg.tla as the reference semantics of grammar bodies",
                       "the DCG renderer of props/C39.py and the LeafAnswer projection of the harness",
                       "double_quotes = chars (the default): a double-quoted string is the list of its characters"]
    return rep.finish()


def replay(path):
    d = json.load(open(path))["detail"]
    cs = Case(d["vector"], "0", d.get("as_str", False))
    r = run_jobs([single_job(cs, 0)], workers=1, job_timeout=60)
    print(cs.text, cs.qtext)
    print("expected:", [terms.show(a) for a in cs.expected_answers()], d["vector"]["status"])
    print(json.dumps(r[0], indent=1)[:3000])
    if "res" in r[0]:
        diff = cs.check(r[0]["res"][2])
        print("diff:", diff)
        return 1 if diff else 0
    return 1
